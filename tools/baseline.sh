#!/bin/bash
# Runs the repository's own suite on /repo's working tree (guard off) and compares with BASELINE.json.
out=${1:-/tmp/baseline_run.json}
cd /repo && GOFLAGS=-mod=mod GOPROXY=off go test -json -vet=off -count=1 -timeout 25m ./... > "$out" 2>&1
python3 - "$out" <<'PY'
import json,sys
base=set(json.load(open('/root/.vp/BASELINE.json'))['stable_pass'])
p=set();f=set()
for l in open(sys.argv[1]):
    try: e=json.loads(l)
    except Exception: continue
    if e.get('Test') and e.get('Action') in('pass','fail'):
        (p if e['Action']=='pass' else f).add(e['Package']+'::'+e['Test'])
print("BASELINE passed %d of %d; failed=%s missing=%s" % (len(base&p), len(base), sorted(f)[:8], sorted(base-p)[:8]))
PY
