#!/bin/bash
# tools/seed_import.sh <Cxx> <suffix: b|c..> <name>: copy a sub-agent's deliverables from /tmp/seed/<Cxx><suffix>.out into
# /verif/seeded/<name>/ and remove the agent's scratch worktree.
set -e
id=$1; suf=$2; name=$3
src=/tmp/seed/${id}${suf}.out
dst=/verif/seeded/$name
mkdir -p $dst
cp $src/patch.diff $dst/patch.diff
cp $src/meta.json $dst/agent_meta.json
for f in $src/*_test.go; do [ -f "$f" ] && cp $f $dst/; done
git -C /repo worktree remove --force /tmp/seed/${id}${suf} || true
ls $dst
