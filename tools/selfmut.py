#!/usr/bin/env python3
"""Creates /verif/seeded/<name>/patch.diff + meta.json from a (file, old, new) replacement, in a scratch worktree."""
import json, os, subprocess, sys
V = os.path.dirname(os.path.dirname(os.path.abspath(__file__)))
MUTS = [
 ("C14-self1", "C14", "pkg/secretstore/secret_store_messages.go", "	return cleartext, decryptionCtx.newlyDecrypted, nil\n", "	return cleartext, !decryptionCtx.newlyDecrypted, nil\n",
  "OutOfStoreMessageOpen returns the negation of newlyDecrypted: AlreadyReceived is inverted", "any push open"),
 ("C14-self2", "C14", "pkg/secretstore/secret_store_messages.go", "	last := first + s.precomputeOutOfStoreGroupRefsCount\n", "	last := first + s.precomputeOutOfStoreGroupRefsCount - 1\n",
  "reference window shrunk by one at its upper edge", "a push payload whose counter is centre+N-1"),
 ("C18-self1", "C18", "pkg/protoio/uint32.go", "	if length < 0 || length > reader.maxSize {", "	if length < 0 || length >= reader.maxSize {",
  "uint32 reader refuses frames of exactly the limit", "a frame whose size equals the reader's limit"),
 ("C18-self2", "C18", "pkg/protoio/varint.go", "	if len(reader.buf) < length {\n		reader.buf = make([]byte, length)\n	}", "	if len(reader.buf) < length {\n		reader.buf = make([]byte, length+4096)\n	}",
  "varint reader allocates beyond the limit (slack added to the buffer)", "any frame larger than the current buffer"),
 ("C11-self1", "C11", "pkg/secretstore/device_keystore_wrapper.go", "	if privateKeys[keyAccount].Equals(privateKeys[keyAccountProof]) {", "	if false && privateKeys[keyAccount].Equals(privateKeys[keyAccountProof]) {",
  "import no longer refuses equal account and proof keys", "import with the same blob in both slots"),
 ("C17-self1", "C17", "pkg/rendezvous/rendezvous.go", "	periodsElapsed := date.Unix() / intervalSeconds\n", "	periodsElapsed := (date.Unix() + 1) / intervalSeconds\n",
  "period rounding off by one second", "an instant one second before a period boundary"),
 ("C01-self1", "C01", "pkg/secretstore/secret_store_messages.go", "	return secretbox.Seal(nil, payload, uint64AsNonce(ds.Counter+1), &msgKey), sig, nil\n", "	return secretbox.Seal(nil, payload, uint64AsNonce(ds.Counter+1), &msgKey), sig[:63], nil\n",
  "sender truncates its signature by one byte", "every message (kept as a sanity mutant: the repository suite does catch it)"),
 ("C03-self1", "C03", "events.go", "	protocoltypes.EventType_EventTypeMultiMemberGroupInitialMemberAnnounced: {Message: &protocoltypes.MultiMemberGroupInitialMemberAnnounced{}, SigChecker: sigCheckerGroupSigned},", "	protocoltypes.EventType_EventTypeMultiMemberGroupInitialMemberAnnounced: {Message: &protocoltypes.MultiMemberGroupInitialMemberAnnounced{}, SigChecker: func(*protocoltypes.Group, *protocoltypes.GroupMetadata, proto.Message) error { return nil }},",
  "initial-member announcement accepted without any signature check", "an initial-member announcement not signed by the group key"),
 ("C12-self1", "C12", "api_replication.go", "		LinkKeySig: m.LinkKeySig,\n	}, nil", "		LinkKeySig: m.LinkKeySig,\n		Secret:     m.Secret,\n	}, nil",
  "replication descriptor includes the group secret", "any descriptor"),
 ("C07-self1", "C07", "store_metadata.go", "	if m.checkContactStatus(pk, protocoltypes.ContactState_ContactStateBlocked) {\n		return nil, errcode.ErrCode_ErrInvalidInput\n	}\n\n	return m.contactAction(ctx, pk, &protocoltypes.AccountContactBlocked{}", "	return m.contactAction(ctx, pk, &protocoltypes.AccountContactBlocked{}",
  "blocking an already blocked contact is accepted (appends a second event)", "block in state Blocked"),
 ("C13-self1", "C13", "store_utils.go", "	return entries[startIndex : stopIndex+1], nil", "	return entries[startIndex:stopIndex], nil",
  "range selection excludes the until entry", "any listing with an upper bound"),
 ("C05-self1", "C05", "pkg/secretstore/chain_key.go", "	gid := group.GetPublicKey()\n\n	copy(nonce[:], gid)\n", "	_ = group\n",
  "announcement nonce no longer bound to the group (constant nonce)", "a sender device and recipient member that are the same key pair in two groups (account and contact groups of one account)"),
 ("C20-self1", "C20", "account_export.go", "	if !node.Cid().Equals(expectedCID) {\n", "	if false && !node.Cid().Equals(expectedCID) {\n",
  "restore no longer compares the entry bytes with the identifier in the file name", "an archive whose entry was renamed or whose contents were swapped"),
 ("C19-self1", "C19", "api_app.go", None, None, "", ""),
]

def main():
    only = set(sys.argv[1:])
    for name, prop, path, old, new, summary, needs in MUTS:
        if old is None or (only and name not in only):
            continue
        wt = "/tmp/selfmut_" + name
        subprocess.call(["git", "-C", "/repo", "worktree", "remove", "--force", wt], stderr=subprocess.DEVNULL)
        subprocess.check_call(["git", "-C", "/repo", "worktree", "add", "-q", "--detach", wt, "HEAD"])
        try:
            p = os.path.join(wt, path)
            s = open(p).read()
            if s.count(old) != 1:
                print(name, "pattern occurs", s.count(old), "times: skipped")
                continue
            open(p, "w").write(s.replace(old, new))
            r = subprocess.run(["go", "build", "./..."], cwd=wt, env=dict(os.environ, GOFLAGS="-mod=mod", GOPROXY="off"), capture_output=True, text=True)
            if r.returncode != 0:
                print(name, "does not compile:", r.stderr[-300:])
                continue
            diff = subprocess.check_output(["git", "-C", wt, "diff"]).decode()
            d = os.path.join(V, "seeded", name)
            os.makedirs(d, exist_ok=True)
            open(os.path.join(d, "patch.diff"), "w").write(diff)
            mp = os.path.join(d, "meta.json")
            m = json.load(open(mp)) if os.path.exists(mp) else {}
            m.update({"name": name, "property": prop, "summary": summary, "needs": needs, "author": "written by me (deliberate property-breaking change), not by a sub-agent"})
            json.dump(m, open(mp, "w"), indent=1)
            print(name, "ok")
        finally:
            subprocess.call(["git", "-C", "/repo", "worktree", "remove", "--force", wt])

main()
