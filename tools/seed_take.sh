#!/bin/bash
# tools/seed_take.sh <Cxx> <suffix> <name> [checks...]: import and run
set -e
cd /verif
tools/seed_import.sh $1 $2 $3 >/dev/null
shift; shift; name=$1; shift
python3 tools/seed.py run $name "$@" 2>&1 | grep "^$name"
