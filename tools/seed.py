#!/usr/bin/env python3
"""Helpers for seeded property-breaking changes kept under /verif/seeded/<name>/.

  tools/seed.py run <name> <check id> [<check id>...]   apply patch.diff to /repo, run the quick checks, undo, record
  tools/seed.py baseline <name>                         scratch worktree + patch, run the repository's own suite, record
  tools/seed.py demo <name>                             scratch worktree: demo test fails with the patch, passes without
"""
import json, os, subprocess, sys, time, glob, shutil
VERIF = os.path.dirname(os.path.dirname(os.path.abspath(__file__)))
ENV = dict(os.environ, GOFLAGS="-mod=mod", GOPROXY="off")
BASE = set(json.load(open("/root/.vp/BASELINE.json"))["stable_pass"])


def meta_path(name):
    return os.path.join(VERIF, "seeded", name, "meta.json")


def load_meta(name):
    p = meta_path(name)
    if os.path.exists(p):
        return json.load(open(p))
    am = os.path.join(VERIF, "seeded", name, "agent_meta.json")
    m = {"name": name}
    if os.path.exists(am):
        a = json.load(open(am))
        m.update({"property": a.get("property"), "summary": a.get("summary"), "needs": a.get("needs")})
        if a.get("demo_pkg"):
            m["demo_pkg"] = a["demo_pkg"].strip("./") or "."
    return m


def save_meta(name, m):
    json.dump(m, open(meta_path(name), "w"), indent=1)


def run_checks(name, checks):
    """Runs the quick checks against a scratch worktree of /repo with the patch applied, from a scratch copy of
    /verif (so that /repo, /verif/evidence and /verif/build are never touched and several runs can go on at once)."""
    patch = os.path.join(VERIF, "seeded", name, "patch.diff")
    wt = "/tmp/seedrun_" + name
    vc = "/tmp/verifcopy_" + name
    subprocess.call(["git", "-C", "/repo", "worktree", "remove", "--force", wt], stderr=subprocess.DEVNULL)
    shutil.rmtree(vc, ignore_errors=True)
    subprocess.check_call(["git", "-C", "/repo", "worktree", "add", "-q", "--detach", wt, "HEAD"])
    m = load_meta(name)
    res = m.setdefault("checks_run", {})
    try:
        subprocess.check_call(["git", "-C", wt, "apply", patch])
        subprocess.check_call(["rsync", "-a", "--exclude", "build", "--exclude", ".git", "--exclude", "replays", VERIF + "/", vc + "/"])
        env = dict(os.environ, VERIF_REPO=wt)
        for c in checks:
            t0 = time.time()
            r = subprocess.run([os.path.join(vc, "check"), c, "quick"], cwd=vc, env=env, capture_output=True, text=True)
            viol = [l for l in r.stdout.splitlines() if l.startswith("VIOLATION")]
            sigs = [l.strip() for l in r.stderr.splitlines() if l.startswith("  C") or l.startswith("  HARNESS")]
            res[c] = {"exit": r.returncode, "violations": len(viol), "first": [s[:300] for s in sigs[:3]], "wall_s": round(time.time() - t0, 1)}
            print(name, c, "exit", r.returncode, "violations", len(viol), (sigs[:1] or [""])[0][:200])
            if r.returncode not in (0, 1):
                print(r.stderr[-1500:])
    finally:
        subprocess.call(["git", "-C", "/repo", "worktree", "remove", "--force", wt])
        shutil.rmtree(vc, ignore_errors=True)
    m["detected_by"] = sorted(k for k, v in res.items() if v["exit"] == 1)
    m["missed_by"] = sorted(k for k, v in res.items() if v["exit"] == 0)
    m["how_run"] = "scratch worktree of /repo HEAD + patch.diff, checks run from a copy of /verif with VERIF_REPO pointing at it"
    save_meta(name, m)


def scratch(name):
    wt = "/tmp/seedwt_" + name
    subprocess.call(["git", "-C", "/repo", "worktree", "remove", "--force", wt], stderr=subprocess.DEVNULL)
    subprocess.check_call(["git", "-C", "/repo", "worktree", "add", "-q", "--detach", wt, "HEAD"])
    return wt


def baseline(name):
    wt = scratch(name)
    m = load_meta(name)
    try:
        subprocess.check_call(["git", "-C", wt, "apply", os.path.join(VERIF, "seeded", name, "patch.diff")])
        out = "/tmp/seedwt_%s.json" % name
        with open(out, "w") as fh:
            subprocess.call(["go", "test", "-json", "-vet=off", "-count=1", "-timeout", "25m", "./..."], cwd=wt, env=ENV, stdout=fh, stderr=subprocess.STDOUT)
        passed, failed = set(), set()
        for l in open(out):
            try:
                e = json.loads(l)
            except Exception:
                continue
            if e.get("Test") and e.get("Action") in ("pass", "fail"):
                (passed if e["Action"] == "pass" else failed).add(e["Package"] + "::" + e["Test"])
        missing = sorted(BASE - passed)
        m["baseline_with_patch"] = {"passed_of_191": len(BASE & passed), "failed": sorted(failed)[:10], "missing": missing[:10], "cmd": "go test -json -vet=off -count=1 -timeout 25m ./... (scratch worktree of /repo HEAD + patch.diff)"}
        print(name, "baseline: passed", len(BASE & passed), "of 191; failed", sorted(failed)[:5], "missing", missing[:5])
        os.remove(out)
    finally:
        subprocess.call(["git", "-C", "/repo", "worktree", "remove", "--force", wt])
    save_meta(name, m)


def demo(name):
    wt = scratch(name)
    m = load_meta(name)
    d = os.path.join(VERIF, "seeded", name)
    try:
        patch = open(os.path.join(d, "patch.diff")).read()
        pkgdir = m.get("demo_pkg")
        if not pkgdir:
            # the package of the first patched file
            for l in patch.splitlines():
                if l.startswith("+++ b/"):
                    pkgdir = os.path.dirname(l[6:]) or "."
                    break
        demos = [f for f in os.listdir(d) if f.endswith("_test.go")]
        for f in demos:
            shutil.copy(os.path.join(d, f), os.path.join(wt, pkgdir, f))
        runre = m.get("demo_run", "Seed|Demo")
        def go():
            r = subprocess.run(["go", "test", "-count=1", "-vet=off", "-timeout", "20m", "-run", runre, "./" + pkgdir], cwd=wt, env=ENV, capture_output=True, text=True)
            return r.returncode, (r.stdout + r.stderr)[-400:]
        rc0, o0 = go()
        subprocess.check_call(["git", "-C", wt, "apply", os.path.join(d, "patch.diff")])
        rc1, o1 = go()
        m["demo"] = {"pkg": pkgdir, "run": runre, "without_patch_exit": rc0, "with_patch_exit": rc1}
        print(name, "demo without patch exit", rc0, "with patch exit", rc1)
        if rc0 != 0:
            print(o0)
        if rc1 == 0:
            print("demo did not fail with the patch!", o1)
    finally:
        subprocess.call(["git", "-C", "/repo", "worktree", "remove", "--force", wt])
    save_meta(name, m)


if __name__ == "__main__":
    cmd, name = sys.argv[1], sys.argv[2]
    if cmd == "run":
        run_checks(name, sys.argv[3:])
    elif cmd == "baseline":
        baseline(name)
    elif cmd == "demo":
        demo(name)
