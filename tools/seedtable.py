#!/usr/bin/env python3
"""Refreshes the seeded-change table in DESIGN.md from seeded/*/meta.json."""
import json, os, glob, re
V = os.path.dirname(os.path.dirname(os.path.abspath(__file__)))
rows = []
for d in sorted(glob.glob(os.path.join(V, "seeded", "*"))):
    mp = os.path.join(d, "meta.json")
    if not os.path.exists(mp):
        continue
    m = json.load(open(mp))
    name = os.path.basename(d)
    summ = (m.get("summary") or "").replace("\n", " ").replace("|", "/")
    if len(summ) > 230:
        summ = summ[:227] + "..."
    needs = (m.get("needs") or "").replace("\n", " ").replace("|", "/")
    if len(needs) > 160:
        needs = needs[:157] + "..."
    det = ", ".join(m.get("detected_by", [])) or "-"
    miss = ", ".join(m.get("missed_by", [])) or "-"
    first = ""
    for c in m.get("detected_by", []):
        f = (m.get("checks_run", {}).get(c, {}).get("first") or [""])[0]
        first = f.split(":")[0].strip()
        break
    b = m.get("baseline_with_patch", {})
    base = "%s/191" % b.get("passed_of_191") if b else "affected packages (agent + me)"
    rows.append("| %s | %s | %s | %s | %s | %s | %s |" % (name, m.get("property", ""), summ, needs, det + (" (`%s`)" % first if first else ""), miss, base))
table = "<!-- SEEDTABLE:BEGIN -->\n| seeded change | breaks | change | needs | caught by (first signature) | missed by | repository suite with the change |\n|---|---|---|---|---|---|---|\n" + "\n".join(rows) + "\n<!-- SEEDTABLE:END -->"
p = os.path.join(V, "DESIGN.md")
s = open(p).read()
if "<!-- SEEDTABLE:BEGIN -->" in s:
    s = re.sub(r"<!-- SEEDTABLE:BEGIN -->.*?<!-- SEEDTABLE:END -->", lambda _: table, s, flags=re.S)
else:
    s = s.replace("SEEDTABLE", table, 1)
open(p, "w").write(s)
print(len(rows), "rows")
