#!/usr/bin/env python3
"""Regenerates /verif/MANIFEST.json from tools/checks_table.py (claimed checks) and properties.jsonl."""
import json, os, sys
VERIF = os.path.dirname(os.path.dirname(os.path.abspath(__file__)))
sys.path.insert(0, os.path.join(VERIF, "tools"))
from checks_table import CHECKS, NOT_APPLICABLE  # noqa

props = [json.loads(l) for l in open(os.path.join(VERIF, "properties.jsonl"))]
checks = []
for p in props:
    cid = p["id"]
    if cid not in CHECKS:
        continue
    c = CHECKS[cid]
    checks.append({
        "property_id": cid,
        "quick_cmd": "./check %s quick" % cid,
        "thorough_cmd": "./check %s thorough" % cid,
        "evidence_file": "/verif/evidence/%s.json" % cid,
        "replay_cmd_template": "./check %s --replay {path}" % cid,
        "engine": c.get("engine", "vrep+" + ("vsync" if c.get("variant", "plain").startswith("sched") else "explicit enumeration")),
        "level_claimed": {"category": c["level"], "text": c.get("level_text", c["technique"] + ". " + c.get("rule", "")), "design_ref": "DESIGN.md section 5, " + cid},
        "level_note": "; ".join(c.get("assumptions", [])) or "none",
        "technique": c["technique"],
    })
na = [{"property_id": p["id"], "reason": NOT_APPLICABLE.get(p["id"], "check not built yet (work in progress; DESIGN.md section 5 describes the planned check)")} for p in props if p["id"] not in CHECKS]
m = {
    "version": 1,
    "setup_cmd": "./check --setup",
    "hooks": {
        "guard": "verif",
        "enable": "go test -tags verif -overlay /verif/build/<variant>/overlay.<check>.json -vet=off -c <pkg>  (harness files carry //go:build verif and are injected, together with the sync/channel shims and the syntactically rewritten copies of the files under test, by build overlay from the current /repo tree; nothing is committed to /repo)",
        "baseline_off_cmd": "cd /repo && go test -mod=mod -json -vet=off -count=1 -timeout 25m ./...",
        "source_commits": [],
        "add_only": True,
    },
    "engines": [
        {"name": "vrep", "path": "/verif/engine/vrep", "serves_properties": sorted(CHECKS.keys() - {"SELFTEST"}), "kind_free_text": "coverage/violation reporting shared by all harnesses"},
        {"name": "vsync", "path": "/verif/engine/vsync", "serves_properties": sorted(k for k, v in CHECKS.items() if v.get("variant", "plain").startswith("sched")), "kind_free_text": "controlled cooperative scheduler with sync/channel shims + stateless DFS with iterative preemption bounding; production files are rewritten onto the shims by tools/rewrite at check time"},
        {"name": "explicit-state / catalogue harnesses", "path": "/verif/harness", "serves_properties": sorted(k for k, v in CHECKS.items() if not v.get("variant", "plain").startswith("sched") and k != "SELFTEST"), "kind_free_text": "BFS over real objects (clone or replay + one real call per transition), exhaustive input catalogues, crash-point enumeration"},
    ],
    "checks": checks,
    "not_applicable": na,
    "notes": "All checks run the real implementation of the current /repo tree. ./check SELFTEST quick runs the scheduler engine's self-tests. known_findings.json lists genuine defects (fixed ones suppress nothing).",
}
json.dump(m, open(os.path.join(VERIF, "MANIFEST.json"), "w"), indent=1)
print("claimed:", [c["property_id"] for c in checks])
