#!/bin/bash
# tools/sweep.sh <rounds> [ids...]: run the quick checks sequentially <rounds> times, print one line per run
cd "$(dirname "$0")/.."
rounds=${1:-1}; shift
ids=${@:-C01 C02 C03 C04 C05 C06 C07 C08 C09 C10 C11 C12 C13 C14 C15 C16 C17 C18 C19 C20}
for r in $(seq 1 $rounds); do
  for c in $ids; do
    t0=$(date +%s)
    out=$(./check $c quick 2>&1); rc=$?
    echo "round=$r $c exit=$rc $(( $(date +%s) - t0 ))s $(echo "$out" | tail -1 | cut -c1-160)"
    if [ $rc -ne 0 ]; then echo "$out" | tail -15 | cut -c1-400; fi
  done
done
