"""Table of checks: which harness (overlay dir under /verif/harness), which test, which build variant."""

VARIANTS = {
    "plain": {"extra_harness": ["queue_export"]},
    # queue code with sync/channel operations routed through the controlled scheduler
    "sched-queue": {"rewrite": ["internal/queue/*.go"]},
    # message pipeline of the root package: queues, message store and group context on the scheduler shims
    "sched-msg": {"rewrite": ["internal/queue/*.go", "store_message.go", "group_context.go"], "extra_harness": ["queue_export"]},
    # rendezvous rotation on the virtual clock
    "vtime": {"rewrite": [["pkg/rendezvous/rotation.go", "time"], ["pkg/rendezvous/rendezvous.go", "time"],
                          # the head-exchange marshaler compiled on its own against the rendezvous package on the virtual clock
                          {"src": "message_marshaler.go", "mode": "copy", "dst": "internal/zzverif/mm/message_marshaler.go", "pkg": "mm"},
                          # the swiper (watch / announce loops around the rotation points) compiled on its own on the virtual clock,
                          # context deadlines included
                          {"src": "tinder_swiper.go", "mode": "time+ctx", "dst": "internal/zzverif/sw/tinder_swiper.go", "pkg": "sw"}]},
    # the metadata index with its lock visible to the scheduler (two writers on one store)
    "sched-index": {"rewrite": ["store_metadata_index.go"], "extra_harness": ["queue_export"]},
    # secret store with its mutexes visible to the scheduler (datastore operations are points via the harness datastore)
    "sched-secret": {"rewrite": ["pkg/secretstore/*.go"]},
    # notify primitive and its three clients; the connectedness manager and the peer cache are compiled on their
    # own as virtual packages (rewritten copy of the current source file, package clause renamed)
    "sched-conn": {"rewrite": [
        "internal/notify/notify.go",
        "pkg/lifecycle/*.go",
        {"src": "connectedness_manager.go", "mode": "sync", "dst": "internal/zzverif/cm/connectedness_manager.go", "pkg": "cm"},
        {"src": "pkg/tinder/peer_cache.go", "mode": "sync+time", "dst": "internal/zzverif/pc/peer_cache.go", "pkg": "pc"},
    ]},
}

NOT_APPLICABLE = {}

CHECKS = {
    "C01": dict(
        level="exploration",
        parts=[
            dict(name="secretstore", harness="pkg__secretstore", run="TestVerifC01"),
            dict(name="messagestore", harness="root", run="TestVerifC01b"),
        ],
        technique="exhaustive enumeration of a finite input/forgery catalogue against the real secret store",
        rule="every element of the catalogue (honest round trips over the payload alphabet x 3 group types x 2 receivers; every single-bit flip of whole sealed envelopes, before and after the honest open; every field substitution between 5 recorded envelopes; every device/counter/signature re-attribution; forgeries by a chain-key holder under 6 signers) is opened by a real receiver store on a clone of its datastore; distinct = distinct (group type, mutation kind, outcome, error class) tuples observed",
        assumptions=["payload bytes outside the 11 sizes x 3 patterns alphabet and keys outside the deterministic key alphabet are not covered",
                     "a bit flip that is a valid forgery is a 2^-128 event; structural bindings are checked, not primitive strength",
                     "content identifier of an envelope is a digest of its bytes (as IPFS guarantees)",
                     "part 'messagestore': MessageStore.openMessage on constructed log entries (every bit flip of one envelope, re-attributions, payload substitutions, other group); forgeries that need a fellow member's derived message key are in part 'secretstore' only"],
    ),
    "C02": dict(
        level="model_checking",
        parts=[
            dict(name="ratchet", harness="pkg__secretstore", run="TestVerifC02"),
            dict(name="concurrent", harness="pkg__secretstore", run="TestVerifC02Conc", variant="sched-secret", gomaxprocs=2, shards={"quick": 4, "thorough": 8}),
        ],
        technique="explicit-state BFS over the receiver's complete datastore (clone + one real call per transition) against a reference ratchet model",
        rule="states = distinct full datastore dumps of the receiving secret store; every state is expanded with every open(k), register and re-register(older) transition; distinct classes = (group type, expectation class, outcome)",
        assumptions=["part 'concurrent' (added after a sub-agent's change let two opens run under a shared lock): 2-3 tasks open messages of one sender at the same time on the real store under the controlled scheduler (scheduling points at the package's mutex operations and at every datastore operation of the receiver, preemption bound 2 / 3); afterwards every counter the reference calls openable must open",
                     "windows 1..4 and n<=7 are enumerated; the default window of 100 is only touched by a 9-step scripted boundary walk",
                     "envelope content identifiers are digests of the envelope bytes",
                     "the secret store keeps no state outside the datastore handed to its constructor (so a datastore clone is a state clone)"],
    ),
    "C14": dict(
        level="model_checking",
        parts=[
            dict(name="states", harness="pkg__secretstore", run="TestVerifC14"),
            dict(name="concurrent", harness="pkg__secretstore", run="TestVerifC14Conc", variant="sched-secret", gomaxprocs=2, shards={"quick": 4, "thorough": 8}),
        ],
        technique="explicit-state BFS over the receiver's complete datastore with log-open / push-open / register transitions against a reference model, plus exhaustive bit flips of a push payload in representative states",
        rule="states = distinct full datastore dumps; every state expanded with log-open(k), push-open(k), register; in every successor every message the reference calls log-openable is probed through the log on a clone; distinct classes = (transition kind, expectation, outcome, error class)",
        assumptions=["part 'concurrent': the push path and the log path of one sender's messages run at the same time on the real store under the controlled scheduler (preemption bound 2 / 3); afterwards the log path must open what the reference calls openable and delivered messages must open from their push payload, flagged as received",
                     "log-open is modelled as OpenEnvelopePayload followed by UpdateOutOfStoreGroupReferences, the two calls MessageStore.processMessage makes",
                     "windows 1..3, reference windows 1..3 and n<=5 enumerated; defaults (100/100) not enumerated",
                     "the gRPC wrapper OutOfStoreReceive is a direct call of OpenOutOfStoreMessage and is not driven separately"],
    ),
    "C10": dict(
        harness="pkg__secretstore", run="TestVerifC10", level="fault_enumeration",
        technique="exhaustive crash-point enumeration: every prefix of the recorded datastore mutation log of each workload (batches atomic / non-batched), restart on the materialised prefix, re-issue and continue",
        rule="for every workload (receiver scripts x 3 group types, sender script, first-use-of-keys in 10 orders) and every mutation index a fresh store is started on the surviving datastore; thorough additionally takes every mutation of the continuation as a second crash; distinct = (workload, kind of operation interrupted, number of crashes)",
        assumptions=["a crash loses exactly a suffix of the mutation sequence (no reordering of writes, batches atomic as on badger; the non-batched variant makes every put its own crash point)",
                     "the interrupted operation is re-issued after restart (as the log replay of the real system does); a re-issued registration must take effect (what it makes openable in a crash-free run is openable) - added after a sub-agent's change stored the chain key before the precomputed keys",
                     "windows of 2 keys, 3-4 messages per sender"],
    ),
    "C11": dict(
        level="exploration",
        parts=[
            dict(name="derivations", harness="pkg__secretstore", run="TestVerifC11"),
            dict(name="concurrent", harness="pkg__secretstore", run="TestVerifC11Conc", variant="sched-secret", gomaxprocs=2, shards={"quick": 4, "thorough": 8}, race_pass=True),
        ],
        technique="exhaustive enumeration: all ordered account pairs of a 6-key alphabet, all operation sequences to depth 4/5 over derive/export/import/reopen on two real stores, complete import-refusal catalogue (every truncation length, foreign key types, swapped/equal/empty blobs)",
        rule="every element enumerated is executed on real secret stores; distinct = (check kind, case class, outcome)",
        assumptions=["6 deterministic account keys, 2 multi-member groups, 3 devices per account; keys outside the alphabet are not covered ('thousands of random pairs' would be sampling)",
                     "one multi-member group uses a contact's account key as its identifier (both derivations address the cache of agreement keys by public key)",
                     "part 'derivations' also fails each keystore/datastore operation of every derivation once (one transient storage fault): the call fails or returns the agreed value, and the values are unchanged afterwards",
                     "part 'concurrent': two (thorough: three) tasks use a derived or lazily generated key for the first time at the same moment on the real store under the controlled scheduler (scheduling points at the package's mutex operations and every datastore operation, preemption bound 2 / 3); every task must be handed the key the store holds afterwards"],
    ),
    "C05": dict(
        level="model_checking",
        parts=[
            dict(name="a", harness="pkg__secretstore", run="TestVerifC05a"),
            dict(name="b", harness="root", run="TestVerifC05"),
            dict(name="c", harness="root", run="TestVerifC05c"),
        ],
        technique="(a) exhaustive enumeration of (sender device, recipient member, group) triples x every (claimed sender, opener, group) combination x every single-bit flip on the real announcement code; (b) explicit-state BFS over real group contexts: activation steps, handling of received group-metadata events and deliveries between replicas are the transitions, chain-key completeness checked in every quiescent state",
        rule="(a) accounts {A,B,C} x devices {1,2} x groups {account(A), contact(A,B), contact(A,C), G1, G2}; (b) scenarios 2x1, 2x(2,1) devices, contact group (thorough: 3x1, fine-grained steps, contact with 2 devices); states = canonical (per replica: activation flags, entry descriptors, pending events, known chain keys), successors by replaying the history on fresh real objects + one real step; every join order and every delivery direction/order is a transition",
        assumptions=["handlers (handleGroupMetadataEvent, the activation steps) are atomic steps; their internal interleavings are out of scope here (C08/C09 cover the pipeline and the secret store)",
                     "events emitted before a replica's activation are not handled by it, as with the real subscription",
                     "(b) is capped at 400 (quick) / 4000 states per scenario; a cap hit is reported as exhaustive:false with what was completed",
                     "(c) drives the real ActivateGroupContext: a new member's device entry is delivered at every secret-store call the activation makes (and before / after it); that the activation's event loop has caught up is established by a later entry whose answer is observable",
                     "keys outside the deterministic alphabet are not covered"],
    ),
    "C15": dict(
        harness="internal__queue", run="TestVerifC15", variant="sched-queue", level="model_checking", gomaxprocs=2, race_pass=True,
        technique="stateless model checking of the real queue code under a controlled scheduler (all interleavings at lock/channel operations, iterative preemption bounding) + exhaustive operation sequences of the priority queue against a reference multiset",
        rule="states = distinct schedule prefixes (decision nodes of the DFS tree), transitions = scheduling steps executed, traces = complete executions of the real code; classes = distinct (scenario, terminal observation) pairs",
        assumptions=["sequentially consistent interleavings at synchronisation operations only (mutex lock, channel send/receive/select/close, goroutine start); unlock is not a preemption point",
                     "ctx.Done() is an external channel polled by the scheduler; cancellation happens at an explicit scheduling point of the canceller thread",
                     "1-3 items, 1-2 producers, one consumer, optional canceller and Pop caller"],
    ),
    "SELFTEST": dict(
        harness="internal__zzverif__vsync", run="TestVerifSelfTest", level="model_checking",
        technique="engine self-test", rule="engine self-test", assumptions=[],
    ),
    "C16": dict(
        variant="sched-conn", level="model_checking", gomaxprocs=2, race_pass=True,
        parts=[
            dict(name="N", harness="internal__notify", run="TestVerifC16N"),
            dict(name="CM", harness="internal__zzverif__cm", run="TestVerifC16CM"),
            dict(name="LM", harness="pkg__lifecycle", run="TestVerifC16LM"),
            dict(name="PC", harness="internal__zzverif__pc", run="TestVerifC16PC"),
        ],
        technique="stateless model checking of the real notify / connectedness-manager / lifecycle-manager / peer-cache code under a controlled scheduler (all interleavings at lock and channel operations, iterative preemption bounding)",
        rule="4 harnesses (N notify alone, CM connectedness manager, LM lifecycle manager, PC discovery peer cache); states = distinct schedule prefixes, transitions = scheduling steps, traces = complete executions of the real code; classes = distinct (scenario, terminal observation)",
        assumptions=["sequentially consistent interleavings at synchronisation operations only; unlock is not a preemption point",
                     "connectedness_manager.go and peer_cache.go are compiled on their own (same source text, package clause renamed) so that the harness need not link the root package / libp2p discovery stack",
                     "peer cache timestamps come from a virtual clock that advances 1 ns per reading",
                     "lock order is covered dynamically (every pair of public methods as free threads), not by a static lock graph"],
    ),
    "C09": dict(
        harness="pkg__secretstore", run="TestVerifC09", variant="sched-secret", level="model_checking", gomaxprocs=2,
        shards={"quick": 8, "thorough": 16},
        technique="stateless model checking of concurrent SealEnvelope calls on the real secret store under a controlled scheduler (scheduling points at every mutex operation of the package and at every datastore operation), iterative preemption bounding",
        rule="2-3 sender threads x 1-2 messages on one or two groups (all three group types), optionally a thread announcing the chain key or re-opening an own message; states = distinct schedule prefixes, transitions = scheduling steps, traces = complete executions; classes = distinct (scenario, order of counters handed out) outcomes",
        assumptions=["sequentially consistent interleavings at the package's lock operations and at datastore operations; true parallel memory effects are not modelled",
                     "crypto and protobuf code runs atomically between two scheduling points"],
    ),
    "C18": dict(
        harness="pkg__protoio", run="TestVerifC18", level="exploration",
        technique="exhaustive enumeration of frame-size sequences x every chunking of the byte stream (all 2^(n-1) compositions for streams <= 14 bytes, <= 2 short reads otherwise) x every truncation offset, plus all byte strings of length <= 2 and a malformed-length catalogue, against the real readers and writers",
        rule="frame sizes {0,2,3,limit-1,limit,limit+1,127,128} with limits {8,130}, sequences of 1-3 frames, varint / uint32 big- and little-endian variants; distinct = (variant, limit, kind of case, frames read, error) classes",
        assumptions=["message bodies are wrapperspb values of the exact encoded size (a 1-byte body is not a valid protobuf message and is not covered)",
                     "the un-delimited 'full' reader/writer pair is not chunk tolerant by construction and is not part of the property's round-trip claim"],
    ),
    "C17": dict(
        variant="vtime", level="model_checking",
        parts=[
            dict(name="rotation", harness="pkg__rendezvous", run="TestVerifC17"),
            dict(name="marshaler", harness="internal__zzverif__mm", run="TestVerifC17MM"),
            dict(name="swiper", harness="internal__zzverif__sw", run="TestVerifC17SW"),
        ],
        technique="explicit-state BFS over operation histories of two real RotationInterval instances on a virtual clock (register / resolve / exchange rotation values / advance time across period and grace boundaries), against an independent HMAC reference; plus an exhaustive grid for the pure functions",
        rule="states = distinct canonical (virtual time, both caches, pending timers, reference bookkeeping); successors by replaying the history on fresh objects + one real call; intervals 1 s, 2 s, 1 h; classes = (operation, expectation, outcome)",
        assumptions=["the clock is read through a virtual clock substituted for package time in pkg/rendezvous (rotation.go, rendezvous.go) by source rewriting at check time",
                     "part 'swiper': tinder_swiper.go compiled on its own (package clause renamed) on the virtual clock - clock reads, sleeps, timers and context deadlines (context.WithDeadline / WithTimeout mapped to virtual deadlines by the rewriter) - against the real tinder service with a recording discovery driver; every history to depth 4/5 over {start watching, start announcing, advance 2 / 7 / 12 / 35 s} at a 10 s interval; after every step the live subscription of the watch loop and the live advertisement of the announce loop must be for the point of the period containing now (the virtual clock moves 1 microsecond per reading; goroutine hand-overs are awaited in real time, a failing history is believed only when a second, more patient run fails too)",
                     "the head-exchange marshaler (message_marshaler.go) is compiled on its own (package clause renamed) against pkg/rendezvous on the virtual clock and driven over all operation histories to depth 5/7 (two instances, register / exchange in both directions / advance / foreign seed)",
                     "grace period required by the oracle: RotationGracePeriod after the previous value's deadline"],
    ),
    "C06": dict(
        level="model_checking",
        parts=[
            dict(name="handshake", harness="internal__handshake", run="TestVerifC06"),
            dict(name="incoming", harness="root", run="TestVerifC06b"),
            dict(name="outgoing", harness="root", run="TestVerifC06c"),
        ],
        technique="exhaustive enumeration of a bounded Dolev-Yao attacker against the real requester/responder code: every combination of harvest sessions x every ephemeral choice x every constructible/replayable frame in every attacker-controlled slot; plus every single-bit flip and truncation of each frame of an honest run",
        rule="attacker M (a legitimate account) first runs 0..2 harvest sessions with honest parties (passive recording; A or B requests M; M requests A or B; M's ephemeral fresh or low-order), then attacks responder B claiming another account (T1) and requester A who targets B (T2); in each attacker-controlled slot every element of its knowledge closure is tried (fresh / 12 low-order / recorded / reflected ephemerals; every recorded frame; every known plaintext sealed under every computable key; empty, 1-byte, oversize; ack true/false/missing); classes = (target, ephemeral kind, frame kind, outcome)",
        assumptions=["part 'outgoing': the real SendContactRequest over an in-memory stream against a peer that answers the handshake with the target's key, another account's key, the requester's own key, or garbage, and keeps reading: the request is recorded as sent and the own contact card goes out only in the first case",
                     "the attacker cannot break X25519, Ed25519 or the box; it combines what it has seen or can compute",
                     "at most two harvest sessions before the targets (quick: pairs restricted to equal ephemeral kinds); frames B emits while being attacked (T1) are available for the attack on A (T2)",
                     "part 'incoming': the real handleIncomingRequest over an in-memory pipe against a requester that authenticates honestly and then announces a catalogue of contacts (its own, another account's, malformed, none)",
                     "counted as model_checking: states = attacker knowledge states (harvest combinations), transitions = partial handshakes executed against the real code"],
    ),
    "C04": dict(
        level="model_checking",
        parts=[
            dict(name="histories", harness="root", run="TestVerifC04"),
            dict(name="index-passes", harness="root", run="TestVerifC04Idx", variant="sched-index", gomaxprocs=2),
        ],
        technique="explicit-state exploration of real metadata stores: every operation history up to a depth on a real writer (deduplicated by the resulting log), x every delivery plan of the log to fresh real replicas (every split into batches, several orders per batch, reopen at every position), compared with the writer, with a reference model and after re-indexing",
        rule="states = distinct logs produced by the real writer; transitions = real store operations (append, batch delivery through the store's replication event path, reopen, reload); every explored trace runs the implementation; classes = (scenario, log length, number of batches, reopen, outcome)",
        assumptions=["entries reach a replica through the store's own replication-complete path (EventLoadEnd with single-entry logs, as the replicator produces), not through pub-sub/bitswap",
                     "histories to depth 2-4 over {7 contact operations x contacts X,Y, contact-request switch/seed, group join/leave, credential}; multi-member history of 8 entries by 3 devices; 12 concurrent two-writer scenarios",
                     "batches are causally closed, as the replicator's are",
                     "part 'index-passes' (added after a sub-agent's change took the log snapshot outside the index lock): two (thorough: three) tasks write to one real account-group store at the same moment under the controlled scheduler (scheduling points at the lock operations of store_metadata_index.go, preemption bound 2 / 3); once every write has returned, the reported state must not change when the unchanged log is indexed once more"],
    ),
    "C13": dict(
        harness="root", run="TestVerifC13", level="model_checking",
        technique="exhaustive enumeration over real stores: logs of 0..6/12 entries x 7 arrival shapes (written locally, replicated in one batch newest/oldest first, entry by entry, mixed, after reopen) x every (since, until, reverse) query including unknown identifiers, against the append-order reference; all 32 parameter combinations of the list RPCs",
        rule="states = (log size, arrival shape) pairs of real metadata and message stores; transitions = listings executed; every listing runs the real ListEvents; classes = (store, arrival, kind of since, kind of until, reverse, error)",
        assumptions=["single-writer (causally ordered) logs; the mixed shape has two writers in strict alternation",
                     "GroupMetadataList / GroupMessageList are invoked in-process on a real service for every terminating (since, until or until_now, reverse) combination over the account group's logs (3 / 6 operations); the subscription mode (no upper bound) is exercised only by C19"],
    ),
    "C07": dict(
        level="model_checking",
        parts=[
            dict(name="lifecycle", harness="root", run="TestVerifC07"),
            dict(name="service", harness="root", run="TestVerifC07Svc"),
        ],
        technique="explicit-state BFS over the reference contact lifecycle: in every reached reference state every contact operation (allowed or not, on X, Y and the own key) and a malformed-contact catalogue are applied to a real account-group store replayed to that state; writer, reopened writer and a replica are compared with the table-driven reference",
        rule="states = distinct reference states (per contact: state, seed, metadata); transitions = real store operations; successors by replaying the history on a fresh real store + one real call; classes = (operation, state it was applied in, allowed, outcome)",
        assumptions=["reference = DESIGN.md appendix A (transition table + seed/metadata rule)",
                     "one contact to depth 4/6, two contacts to depth 2/3",
                     "part 'service' (added after a sub-agent's change de-duplicated requests in the service method): every history to depth 3/4 over {request with 3 seed/metadata variants, sent, received, discard, accept, block, unblock} issued through the service methods of api_contactrequest.go / api_contact.go on a real service, each history on a contact key of its own; allowed/refused, nothing appended on refusal, and the reported state, seed and metadata against the reference lifecycle",
                     "a nil *ShareableContact at the store API is a caller bug, not a malformed contact: it is exercised at the service boundary by C19"],
    ),
    "C03": dict(
        harness="root", run="TestVerifC03", level="exploration",
        technique="exhaustive enumeration: every event type of the protocol table x a forgery catalogue, through openGroupEnvelope and through real metadata stores (forged envelopes appended to the log by a member; subscribers and state observed)",
        rule="event types are read from eventTypesMapper at run time; forgeries: signature by another device / the member key / the group key / the device key where that is not the required signer, signer field substituted after signing, member-signature variants, missing / zero / truncated signature, altered payload, unknown type numbers, wrong group secret, every single-bit flip of the sealed envelope (3 types quick, all thorough), re-labelling as every other type (recorded only); distinct = (group type, forgery kind, outcome)",
        assumptions=["a re-labelled event (same payload bytes and signature under another type number with the same wire shape) carries a valid signature of the device named inside; the property fixes no outcome for it and it is recorded, not judged",
                     "store-level part: 5 representative types in quick, all in thorough; emission is observed up to an honest sentinel event processed by the same single consumer"],
    ),
    "C12": dict(
        level="exploration",
        parts=[
            dict(name="store", harness="root", run="TestVerifC12"),
            dict(name="service", harness="root", run="TestVerifC12b"),
        ],
        technique="exhaustive enumeration: every single-bit flip, removal and truncation of the identifier, secret and signature of an invitation, every group-type substitution and foreign secret/signature, through the real account-group store; replication descriptors of all three group types tried against every envelope of a real session",
        rule="2 invitations x (256+256+512 bit flips + removals/truncations + 6 group-type values + 2 foreign-secret variants); valid join then identity comparison; per group type the descriptor is compared field by field, tried on every metadata and message envelope produced by a real member, and its log addresses compared; distinct = (mutation kind, outcome) classes",
        assumptions=["a nil group is a malformed request, exercised at the service boundary by C19",
                     "the link-key fields of an invitation are not part of what the property requires to be authenticated",
                     "part 'service' (added after a sub-agent's change stored the group before checking it): the same catalogue through the service's MultiMemberGroupJoin; a refused invitation must leave the group unknown to GroupInfo, and the genuine invitation accepted afterwards must be held exactly as invited, with group-specific keys"],
    ),
    "C08": dict(
        level="model_checking",
        parts=[
            dict(name="pipeline", harness="root", run="TestVerifC08", variant="sched-msg", gomaxprocs=2, shards={"quick": 8, "thorough": 16}),
            dict(name="histories", harness="root", run="TestVerifC08b"),
        ],
        technique="stateless model checking of the real message pipeline (processMessageLoop, addToMessageQueue, handleGroupMetadataEvent -> RegisterChainKey -> ProcessMessageQueueForDevicePK) under a controlled scheduler: all interleavings at the lock/channel operations of the queues, the message store and the group context, iterative preemption bounding",
        rule="9 (quick) / 11 scenarios: 1-3 messages of 1-2 senders arriving singly, reversed, duplicated or from two threads, chain key registered before or concurrently, window 1 or 4, optional cancellation; quiescence is read from scheduler state; states = distinct schedule prefixes, transitions = scheduling steps, traces = complete executions; classes = (scenario, delivery order / parked set) outcomes",
        assumptions=["part 'histories' (real stores, no scheduler): every order of {announcement reaches the metadata log, message 1 / 2 reach the message log, activation of the group context}; all messages must be delivered to subscribers",
                     "the secret store, protobuf and crypto code run atomically between two scheduling points (the secret store's own interleavings are C09's)",
                     "the MessageStore is constructed without an orbit-db log behind it: entries are built by the harness, the two event emitters record what is emitted",
                     "sequentially consistent interleavings at synchronisation operations; unlock is not a preemption point"],
    ),
    "C19": dict(
        level="model_checking", crash_is_violation=True,
        parts=[
            dict(name="catalogue", harness="root", run="TestVerifC19"),
            dict(name="invitations", harness="root", run="TestVerifC19b"),
        ],
        technique="explicit-state search over service states (activation histories, canonical = set of active groups) x exhaustive request catalogue for every method of the protocol service invoked in-process on a real service, plus the decode/decrypt helpers on all byte strings of length <= 2 and every truncation of valid inputs",
        rule="methods are read by reflection from ProtocolServiceServer; per request field: bytes in {nil, empty, 1B, 31B, 32B non-key, 32B unknown key, 33B, 64KiB, known value(s)}, sub-messages in {nil, empty, valid with each bytes field removed, valid}, enums {999,0,1}, bools, strings, ints; all combinations over at most 3 varying fields; states = distinct service states, transitions = requests issued; classes = (state, method, error)",
        assumptions=["part 'invitations': 23 invitations whose unauthenticated fields (signing key, link key, its signature) have odd lengths are joined, then 16 requests work on each joined group (activate, send, list, invite, export, deactivate, leave ...)",
                     "listing requests also carry identifiers of real log entries (oldest/newest of the open groups), in both orders",
                     "methods are invoked on the service object (not through the gRPC transport) so that a panic is caught per request; a panic in a background goroutine kills the harness process and is reported as a process crash",
                     "streaming methods and methods that dial out get a 250 ms context; requests that would need an external server are exercised up to the dial",
                     "service states to depth 2 (quick) / 3 over {deactivate/activate account group, create/deactivate a multi-member group, add a contact / deactivate its group}"],
    ),
    "C20": dict(
        level="model_checking",
        parts=[
            dict(name="histories", harness="root", run="TestVerifC20"),
            dict(name="export-faults", harness="root", run="TestVerifC20Faults"),
        ],
        technique="explicit-state exploration of real services: every operation history up to a depth, export at every state, restore into a fresh datastore + fresh mock node and comparison of identity, logs, heads and derived state; plus an exhaustive mutation catalogue on representative archives",
        rule="states = histories over {contact request, block, join+activate a group, message in account group, message / metadata in the group, deactivate the group}; transitions = export+restore runs; valid archives are compared member by member with the DAG and with the restored node; mutations: each member dropped / duplicated, byte flips (every byte of the key files; first/middle/last byte of entries and heads in quick, every byte in thorough), adjacent swaps and full reversal, entry renamed / contents swapped, key files swapped, restore onto a store with an account; classes = (mutation kind, outcome)",
        assumptions=["part 'export-faults': the export RPC is run once per read it performs on the node's datastore, with that read failing; a reported success must come with the complete archive",
                     "only the rejection cases the property lists (entry bytes not matching their identifier, missing or duplicated key file, existing account) are judged; the outcome of other corruptions (heads, order) is recorded, not judged",
                     "a restore that waits for entries missing from the archive is ended after 4 s by cancelling the database context and counted as a rejection",
                     "logs of the restored node are read by opening the groups without activation (activation appends the new device's own entries)"],
    ),
}
