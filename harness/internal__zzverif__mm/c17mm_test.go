//go:build verif

package mm

import (
	"fmt"
	"testing"
	stdtime "time"

	"github.com/libp2p/go-libp2p/core/peer"

	"berty.tech/go-ipfs-log/enc"
	"berty.tech/go-orbit-db/iface"
	"berty.tech/weshnet/v2/internal/zzverif/vrep"
	"berty.tech/weshnet/v2/internal/zzverif/vtime"
	"berty.tech/weshnet/v2/pkg/protocoltypes"
	"berty.tech/weshnet/v2/pkg/rendezvous"
)

// This package is the real /repo/message_marshaler.go (package clause renamed) compiled against pkg/rendezvous
// on the virtual clock: head-exchange messages carry the sender's current rotation value; the receiver maps it back
// to the store address.

var t0 = stdtime.Unix(1_700_000_000, 0)

var foreignKey = []byte("other-key-other-key-other-key-ot") // 32 bytes

const topic = "/orbitdb/some-address/some-store"

type side struct {
	m            *OrbitDBMessageMarshaler
	rp           *rendezvous.RotationInterval
	resolvedIn   int64 // period start in which this side last resolved (marshalled), -1 none
}

func newSide(interval stdtime.Duration, id string, key []byte) *side {
	rp := rendezvous.NewRotationInterval(interval)
	m := NewOrbitDBMessageMarshaler(peer.ID(id), nil, rp, true) // replication mode: no device key needed, no secret store
	sk, err := enc.NewSecretbox(key)
	if err != nil {
		panic(err)
	}
	m.RegisterSharedKeyForTopic(topic, sk)
	m.RegisterGroup(topic, &protocoltypes.Group{PublicKey: []byte("group")})
	return &side{m: m, rp: rp, resolvedIn: -1}
}

func period(t stdtime.Time, interval stdtime.Duration) int64 {
	sec := int64(interval / stdtime.Second)
	return (t.Unix() / sec) * sec
}

type mmOp struct {
	Kind string `json:"op"`
	Arg  int64  `json:"arg,omitempty"`
}

func TestVerifC17MM(t *testing.T) {
	rep := vrep.New("C17")
	defer func() {
		vtime.Disable()
		if err := rep.Finish(); err != nil {
			t.Fatal(err)
		}
		if rep.NViolations() > 0 {
			t.Fail()
		}
	}()
	depth := 5
	if vrep.Thorough() {
		depth = 7
	}
	key := []byte("link-key-link-key-link-key-link!")[:32]
	for _, interval := range []stdtime.Duration{stdtime.Second, 2 * stdtime.Second} {
		ops := []mmOp{{Kind: "P.register"}, {Kind: "Q.register"}, {Kind: "P->Q"}, {Kind: "Q->P"}, {Kind: "advance", Arg: 1}, {Kind: "advance", Arg: 2}, {Kind: "advance", Arg: 3}, {Kind: "foreign->Q"}, {Kind: "P.send"}, {Kind: "Q.receive"}}
		type world struct {
			P, Q       *side
			pReg, qReg bool
			// a head-exchange message of P that is still in flight (P.send ... Q.receive), and the period it was made in
			inFlight       []byte
			inFlightPeriod int64
			qResolved      map[int64]bool // periods in which Q itself resolved the topic (registration or own marshal)
		}
		apply := func(w *world, op mmOp) (string, string) {
			now := vtime.Now()
			send := func(from, to *side, fromReg, toReg bool, a, b string) (string, string) {
				payload, err := from.m.Marshal(&iface.MessageExchangeHeads{Address: topic})
				if !fromReg {
					if err == nil {
						return "C17/marshal-unregistered", a + " marshals for a topic whose rotation it never registered"
					}
					return "", ""
				}
				if err != nil {
					return "C17/marshal-failed", fmt.Sprintf("%s cannot marshal at t0+%d: %v", a, now.Unix()-t0.Unix(), err)
				}
				from.resolvedIn = period(now, interval)
				var out iface.MessageExchangeHeads
				uerr := to.m.Unmarshal(payload, &out)
				must := toReg && to.resolvedIn == period(now, interval)
				rep.Eval(fmt.Sprintf("marshaler/receiver-resolved-this-period=%v/accepted=%v", must, uerr == nil))
				if must && uerr != nil {
					return "C17/head-exchange-refused", fmt.Sprintf("%s resolved the topic in the current period and refuses %s's head-exchange message: %v", b, a, uerr)
				}
				if uerr == nil && out.Address != topic {
					return "C17/head-exchange-wrong-topic", "message mapped to " + out.Address
				}
				return "", ""
			}
			switch op.Kind {
			case "P.register":
				w.P.rp.RegisterRotation(now, topic, key)
				w.pReg = true
				w.P.resolvedIn = period(now, interval)
			case "Q.register":
				w.Q.rp.RegisterRotation(now, topic, key)
				w.qReg = true
				w.Q.resolvedIn = period(now, interval)
				w.qResolved[period(now, interval)] = true
			case "P.send":
				if !w.pReg {
					return "", ""
				}
				payload, err := w.P.m.Marshal(&iface.MessageExchangeHeads{Address: topic})
				if err != nil {
					return "C17/marshal-failed", fmt.Sprintf("P cannot marshal at t0+%d: %v", now.Unix()-t0.Unix(), err)
				}
				w.P.resolvedIn = period(now, interval)
				w.inFlight, w.inFlightPeriod = payload, period(now, interval)
			case "Q.receive":
				if w.inFlight == nil {
					return "", ""
				}
				var out iface.MessageExchangeHeads
				uerr := w.Q.m.Unmarshal(w.inFlight, &out)
				cur := period(now, interval)
				sec := int64(interval / stdtime.Second)
				// the message was made one period ago at most (the grace period is far longer than these histories)
				must := w.qReg && w.qResolved[w.inFlightPeriod] && cur-w.inFlightPeriod <= sec
				rep.Eval(fmt.Sprintf("marshaler/in-flight/periods-late=%d/receiver-knew-that-period=%v/accepted=%v", (cur-w.inFlightPeriod)/sec, w.qResolved[w.inFlightPeriod], uerr == nil))
				if must && uerr != nil {
					return "C17/head-exchange-in-flight-refused", fmt.Sprintf("P's head-exchange message made in the period starting at t0+%d reaches Q at t0+%d (Q resolved the topic in that period too, grace period not over): refused: %v", w.inFlightPeriod-t0.Unix(), now.Unix()-t0.Unix(), uerr)
				}
				if uerr == nil && out.Address != topic {
					return "C17/head-exchange-wrong-topic", "message mapped to " + out.Address
				}
				w.inFlight = nil
			case "advance":
				vtime.Advance(stdtime.Duration(op.Arg) * stdtime.Second)
			case "P->Q":
				return send(w.P, w.Q, w.pReg, w.qReg, "P", "Q")
			case "Q->P":
				if w.qReg {
					w.qResolved[period(now, interval)] = true
				}
				return send(w.Q, w.P, w.qReg, w.pReg, "Q", "P")
			case "foreign->Q":
				// a sender with another link key (another seed) for the same address
				f := newSide(interval, "F", foreignKey)
				f.rp.RegisterRotation(now, topic, foreignKey)
				payload, err := f.m.Marshal(&iface.MessageExchangeHeads{Address: topic})
				if err != nil {
					return "", ""
				}
				var out iface.MessageExchangeHeads
				uerr := w.Q.m.Unmarshal(payload, &out)
				rep.Eval(fmt.Sprintf("marshaler/foreign/refused=%v", uerr != nil))
				if uerr == nil {
					return "C17/foreign-head-exchange-accepted", "a message carrying the rotation value of another seed was accepted"
				}
			}
			return "", ""
		}
		var states, transitions int64
		reported := map[string]bool{}
		var rec func(hist []mmOp)
		rec = func(hist []mmOp) {
			states++
			if len(hist) == depth {
				return
			}
			for _, op := range ops {
				nh := append(append([]mmOp{}, hist...), op)
				vtime.Enable(t0, 0)
				w := &world{P: newSide(interval, "P", key), Q: newSide(interval, "Q", key), qResolved: map[int64]bool{}}
				bad := false
				for i, o := range nh {
					sig, desc := apply(w, o)
					if i == len(nh)-1 {
						transitions++
					}
					if sig != "" {
						if i == len(nh)-1 && !reported[sig] {
							reported[sig] = true
							rep.Violation(sig, fmt.Sprintf("interval %s, history %v: %s", interval, nh, desc), map[string]interface{}{"interval_s": int64(interval / stdtime.Second), "history": nh})
						}
						bad = true
						break
					}
				}
				if !bad {
					rec(nh)
				}
			}
		}
		rec(nil)
		rep.AddStates(states)
		rep.AddTransitions(transitions)
		rep.AddTraces(transitions)
		rep.Sample(map[string]interface{}{"part": "head-exchange marshaler", "interval": interval.String(), "depth": depth, "histories": states})
	}
}
