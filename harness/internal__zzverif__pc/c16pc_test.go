//go:build verif

package pc

import (
	"context"
	"fmt"
	"sort"
	"strings"
	"testing"
	"time"

	"github.com/libp2p/go-libp2p/core/peer"
	ma "github.com/multiformats/go-multiaddr"

	"berty.tech/weshnet/v2/internal/zzverif/vrep"
	"berty.tech/weshnet/v2/internal/zzverif/vsync"
	"berty.tech/weshnet/v2/internal/zzverif/vtime"
)

// This package is the real /repo/pkg/tinder/peer_cache.go (rewritten onto the scheduler shims and the virtual
// clock, package clause renamed) compiled on its own.

const topic = "topic-1"

func addr(s string) ma.Multiaddr {
	a, err := ma.NewMultiaddr(s)
	if err != nil {
		panic(err)
	}
	return a
}

type pcOp struct {
	p    peer.ID
	addr string
}

type pcWorld struct {
	c         *peersCache
	got       []map[peer.ID]bool
	done      []bool
	rets      [][]string
	cancelled bool
	lookups   []int
}

func pcScenario(waiters int, ops []pcOp, cancel bool) vsync.Scenario {
	var names []string
	finalPeers := map[peer.ID]bool{}
	for _, o := range ops {
		names = append(names, string(o.p)+"@"+o.addr)
		finalPeers[o.p] = true
	}
	name := fmt.Sprintf("waiters=%d updates=[%s] cancel=%v", waiters, strings.Join(names, " "), cancel)
	return vsync.Scenario{
		Name: name,
		Setup: func(s *vsync.Sched) vsync.World {
			vtime.Enable(time.Unix(1700000000, 0), time.Nanosecond)
			w := &pcWorld{c: newPeerCache(), got: make([]map[peer.ID]bool, waiters), done: make([]bool, waiters), rets: make([][]string, waiters)}
			ctx, cancelFn := context.WithCancel(context.Background())
			for i := 0; i < waiters; i++ {
				i := i
				w.got[i] = map[peer.ID]bool{}
				vsync.GoNamed(fmt.Sprintf("W%d", i), func() {
					cur := PeersUpdate{}
					for len(w.got[i]) < len(finalPeers) {
						updated, ok := w.c.WaitForPeerUpdate(ctx, topic, cur)
						var us []string
						for _, p := range updated {
							us = append(us, string(p))
							w.got[i][p] = true
						}
						sort.Strings(us)
						w.rets[i] = append(w.rets[i], fmt.Sprintf("%v/%v", us, ok))
						if !ok {
							break
						}
						if len(updated) == 0 {
							w.rets[i] = append(w.rets[i], "EMPTY")
							break
						}
					}
					w.done[i] = true
				})
			}
			vsync.GoNamed("U", func() {
				for _, o := range ops {
					w.c.UpdatePeer(topic, peer.AddrInfo{ID: o.p, Addrs: []ma.Multiaddr{addr(o.addr)}})
				}
			})
			vsync.GoNamed("G", func() { w.lookups = append(w.lookups, len(w.c.GetPeersForTopics(topic))) })
			if cancel {
				vsync.GoNamed("X", func() {
					vsync.PointHere("cancel")
					w.cancelled = true
					cancelFn()
				})
			}
			_ = cancelFn
			return w
		},
		Check: func(x *vsync.Execution, wd vsync.World) (string, *vsync.Verdict) {
			w := wd.(*pcWorld)
			o := fmt.Sprintf("rets=%v lookups=%v blocked=%d", w.rets, w.lookups, len(x.BlockedAll))
			if len(x.Panics) > 0 {
				return o, &vsync.Verdict{Sig: "C16/PC-panic", Desc: fmt.Sprint(x.Panics)}
			}
			for _, b := range x.BlockedAll {
				if strings.HasPrefix(b, "U ") || strings.HasPrefix(b, "G ") {
					return o, &vsync.Verdict{Sig: "C16/PC-deadlock", Desc: fmt.Sprint(x.BlockedAll)}
				}
			}
			for i := range w.done {
				for _, r := range w.rets[i] {
					if r == "EMPTY" {
						return o, &vsync.Verdict{Sig: "C16/PC-empty-update", Desc: "wait returned ok without any updated peer"}
					}
					if strings.HasSuffix(r, "/false") && !w.cancelled {
						return o, &vsync.Verdict{Sig: "C16/PC-spurious-false", Desc: "wait returned false without cancellation"}
					}
				}
				if !w.done[i] {
					if w.cancelled {
						return o, &vsync.Verdict{Sig: "C16/PC-cancel-ignored", Desc: fmt.Sprint(x.BlockedAll)}
					}
					return o, &vsync.Verdict{Sig: "C16/PC-missed-update", Desc: fmt.Sprintf("waiter %d saw %v of %d peers and is blocked for ever: %v", i, w.rets[i], len(finalPeers), x.BlockedAll)}
				}
			}
			return o, nil
		},
	}
}

func TestVerifC16PC(t *testing.T) {
	rep := vrep.New("C16")
	defer func() {
		vtime.Disable()
		if err := rep.Finish(); err != nil {
			t.Fatal(err)
		}
		if rep.NViolations() > 0 {
			t.Fail()
		}
	}()
	a1, a2 := "/ip4/1.2.3.4/tcp/1", "/ip4/1.2.3.4/tcp/2"
	seqs := [][]pcOp{
		{{"p1", a1}},
		{{"p1", a1}, {"p2", a1}},
		{{"p1", a1}, {"p1", a2}},
		{{"p1", a1}, {"p1", a1}, {"p2", a2}},
	}
	var scs []vsync.Scenario
	for _, sq := range seqs {
		scs = append(scs, pcScenario(1, sq, false), pcScenario(1, sq, true))
		if len(sq) <= 2 {
			scs = append(scs, pcScenario(2, sq, false))
		}
	}
	bound, budget := 2, 4*time.Minute
	if vrep.Thorough() {
		bound, budget = 3, 20*time.Minute
	}
	vsync.ExploreScenarios(rep, "PC", scs, bound, 800, budget)
}
