//go:build verif

package weshnet

import (
	"context"
	"fmt"
	"testing"

	"berty.tech/weshnet/v2/internal/zzverif/vrep"
	"berty.tech/weshnet/v2/pkg/protocoltypes"
)

// C07 part `service`: the contact operations as an application issues them - through the service methods of
// api_contactrequest.go / api_contact.go - for EVERY operation history up to a depth, against the table-driven
// reference lifecycle. Contacts are independent of one another in the lifecycle, so every history runs on a contact
// key of its own and a real service carries a batch of histories. The two transitions no request can produce
// ("sent" after a completed handshake, "received" for an incoming request) are appended through the service's own
// account-group store, as the contact-request manager does.

func c07SvcApply(ctx context.Context, svc *service, env *mEnv, op mOp) error {
	ms := svc.getAccountGroup().MetadataStore()
	pk, _ := env.contacts[op.Contact].Raw()
	var err error
	switch op.Kind {
	case "enqueue":
		_, err = svc.ContactRequestSend(ctx, &protocoltypes.ContactRequestSend_Request{Contact: env.shareable(op.Contact, op.Variant), OwnMetadata: []byte("own-meta")})
	case "sent":
		_, err = ms.ContactRequestOutgoingSent(ctx, env.contacts[op.Contact])
	case "received":
		_, err = ms.ContactRequestIncomingReceived(ctx, env.shareable(op.Contact, op.Variant))
	case "discard":
		_, err = svc.ContactRequestDiscard(ctx, &protocoltypes.ContactRequestDiscard_Request{ContactPk: pk})
	case "accept":
		_, err = svc.ContactRequestAccept(ctx, &protocoltypes.ContactRequestAccept_Request{ContactPk: pk})
	case "block":
		_, err = svc.ContactBlock(ctx, &protocoltypes.ContactBlock_Request{ContactPk: pk})
	case "unblock":
		_, err = svc.ContactUnblock(ctx, &protocoltypes.ContactUnblock_Request{ContactPk: pk})
	default:
		panic("unknown op " + op.Kind)
	}
	return err
}

func TestVerifC07Svc(t *testing.T) {
	rep := vrep.New("C07")
	defer func() {
		if err := rep.Finish(); err != nil {
			t.Fatal(err)
		}
		if rep.NViolations() > 0 {
			t.Fail()
		}
	}()
	depth := 3
	perService := 60
	if vrep.Thorough() {
		depth = 4
	}
	alpha := []mOp{{"enqueue", "", 1}, {"enqueue", "", 2}, {"enqueue", "", 3}, {"sent", "", 0}, {"received", "", 1}, {"discard", "", 0}, {"accept", "", 0}, {"block", "", 0}, {"unblock", "", 0}}
	var hists [][]mOp
	var gen func(h []mOp)
	gen = func(h []mOp) {
		if len(h) > 0 {
			hists = append(hists, append([]mOp{}, h...))
		}
		if len(h) == depth {
			return
		}
		for _, op := range alpha {
			gen(append(h, op))
		}
	}
	gen(nil)
	ctx := context.Background()
	seed := vrep.Seed()
	reported := map[string]bool{}
	var transitions int64
	for start := 0; start < len(hists); start += perService {
		end := start + perService
		if end > len(hists) {
			end = len(hists)
		}
		tp, cleanup := NewTestingProtocol(ctx, t, nil, nil)
		svc := tp.Service.(*service)
		// the freshly started service appends its own device entry and announcement asynchronously: not while a
		// refused request's "nothing appended" is being measured
		waitOwnAnnouncement(svc.getAccountGroup())
		env := newMEnv(seed, svc.getAccountGroup().MemberPubKey())
		for hi := start; hi < end; hi++ {
			name := fmt.Sprintf("H%d", hi)
			env.contacts[name] = vDetKey(seed, "acct/"+name).GetPublic()
			ref := newLifecycle()
			ms := svc.getAccountGroup().MetadataStore()
			var hist []mOp
			for i, o := range hists[hi] {
				o.Contact = name
				hist = append(hist, o)
				before := ms.OpLog().Len()
				allowed := ref.apply(env, o)
				err := c07SvcApply(ctx, svc, env, o)
				transitions++
				if i < len(hists[hi])-1 {
					continue
				}
				appended := ms.OpLog().Len() - before
				rep.Eval(fmt.Sprintf("service/%s/allowed=%v/error=%v/appended=%d", o.Kind, allowed, err != nil, appended))
				viol := func(kind, desc string) {
					if !reported[kind] {
						reported[kind] = true
						rep.Violation("C07/"+kind, fmt.Sprintf("service requests %v on a fresh contact: %s", hists[hi], desc), c07Case{History: hists[hi], Detail: "part service: " + desc})
					}
				}
				if allowed && err != nil {
					viol("service-refuses-allowed-transition", fmt.Sprintf("%v is allowed by the lifecycle and was refused: %v", o, err))
				}
				if !allowed && err == nil {
					viol("service-accepts-illegal-transition", fmt.Sprintf("%v is not allowed in this state and was accepted", o))
				}
				if !allowed && appended != 0 {
					viol("service-refused-operation-appended", fmt.Sprintf("%v was refused and %d entries were appended", o, appended))
				}
			}
			// the reported contact equals the reference lifecycle's
			rc := ref.get(name)
			pk, _ := env.contacts[name].Raw()
			got := "absent"
			if c, ok := ms.ListContacts()[string(pk)]; ok {
				got = fmt.Sprintf("%s seed=%s meta=%s", c.state, hx6(c.contact.PublicRendezvousSeed), string(c.contact.Metadata))
			}
			want := "absent"
			if rc.state != sUndef {
				want = fmt.Sprintf("%s seed=%s meta=%s", rc.state, hx6(rc.seed), string(rc.meta))
			}
			if got != want && !reported["service-differs-from-lifecycle"] {
				reported["service-differs-from-lifecycle"] = true
				rep.Violation("C07/service-differs-from-lifecycle", fmt.Sprintf("service requests %v on a fresh contact: the account reports %s, the reference lifecycle says %s", hists[hi], got, want), c07Case{History: hists[hi], Detail: "part service"})
			}
		}
		cleanup()
	}
	rep.AddStates(int64(len(hists)))
	rep.AddTransitions(transitions)
	rep.AddTraces(int64(len(hists)))
	rep.Sample(map[string]interface{}{"part": "service", "depth": depth, "histories": len(hists), "alphabet": len(alpha)})
}
