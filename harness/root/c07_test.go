//go:build verif

package weshnet

import (
	"fmt"
	"sort"
	"strings"
	"sync"
	"testing"

	"berty.tech/weshnet/v2/internal/zzverif/vrep"
	"berty.tech/weshnet/v2/pkg/protocoltypes"
)

// ---- reference lifecycle (DESIGN.md appendix A): table driven, independent of the implementation's events

type lcContact struct {
	state protocoltypes.ContactState
	seed  []byte
	meta  []byte
}

type lifecycle struct {
	c map[string]*lcContact // by contact name
}

func newLifecycle() *lifecycle { return &lifecycle{c: map[string]*lcContact{}} }

func (l *lifecycle) get(name string) *lcContact {
	c, ok := l.c[name]
	if !ok {
		c = &lcContact{state: protocoltypes.ContactState_ContactStateUndefined}
		l.c[name] = c
	}
	return c
}

func (l *lifecycle) clone() *lifecycle {
	n := newLifecycle()
	for k, v := range l.c {
		n.c[k] = &lcContact{v.state, append([]byte(nil), v.seed...), append([]byte(nil), v.meta...)}
	}
	return n
}

const (
	sUndef     = protocoltypes.ContactState_ContactStateUndefined
	sToRequest = protocoltypes.ContactState_ContactStateToRequest
	sReceived  = protocoltypes.ContactState_ContactStateReceived
	sAdded     = protocoltypes.ContactState_ContactStateAdded
	sRemoved   = protocoltypes.ContactState_ContactStateRemoved
	sDiscarded = protocoltypes.ContactState_ContactStateDiscarded
	sBlocked   = protocoltypes.ContactState_ContactStateBlocked
)

// apply returns whether the operation is allowed in the current state, and updates the reference.
func (l *lifecycle) apply(env *mEnv, op mOp) bool {
	if op.Contact == "SELF" {
		return false // an account can never request, receive or block itself
	}
	c := l.get(op.Contact)
	record := func() {
		if s := env.seedVariant(op.Variant); len(s) > 0 {
			c.seed = s
		}
		if m := env.metaVariant(op.Variant); len(m) > 0 {
			c.meta = m
		}
	}
	switch op.Kind {
	case "enqueue":
		switch c.state {
		case sUndef, sToRequest, sBlocked:
			c.state = sToRequest
			record()
			return true
		case sReceived, sRemoved, sDiscarded:
			c.state = sAdded // recorded as "sent": the enqueue's seed/metadata are not recorded
			return true
		}
		return false // already added
	case "sent":
		switch c.state {
		case sToRequest, sReceived, sRemoved, sDiscarded:
			c.state = sAdded
			return true
		}
		return false
	case "received":
		switch c.state {
		case sUndef, sRemoved, sDiscarded:
			c.state = sReceived
			record()
			return true
		case sToRequest:
			c.state = sAdded // recorded as "sent"
			return true
		}
		return false // already received, already added, blocked (request refused)
	case "discard":
		if c.state == sReceived {
			c.state = sDiscarded
			return true
		}
		return false
	case "accept":
		if c.state == sReceived {
			c.state = sAdded
			return true
		}
		return false
	case "block":
		if c.state != sBlocked {
			c.state = sBlocked
			return true
		}
		return false
	case "unblock":
		if c.state == sBlocked {
			c.state = sRemoved
			return true
		}
		return false
	}
	panic("unknown op")
}

func (l *lifecycle) canon() string {
	var ks []string
	for k, c := range l.c {
		if c.state == sUndef {
			continue
		}
		ks = append(ks, fmt.Sprintf("%s:%d:%s:%s", k, c.state, c.seed, c.meta))
	}
	sort.Strings(ks)
	return strings.Join(ks, "|")
}

// contactsString renders the reference in the format of realContacts.
func (l *lifecycle) contactsString(env *mEnv) string {
	var cs []string
	for name, c := range l.c {
		if c.state == sUndef {
			continue
		}
		pk, _ := env.contacts[name].Raw()
		cs = append(cs, fmt.Sprintf("%s:%s seed=%s meta=%s", hx6(pk), c.state, hx6(c.seed), string(c.meta)))
	}
	sort.Strings(cs)
	return fmt.Sprint(cs)
}

func realContacts(env *mEnv, ms *MetadataStore) string {
	var cs []string
	listed := ms.ListContacts()
	for k, c := range listed {
		cs = append(cs, fmt.Sprintf("%s:%s seed=%s meta=%s", hx6([]byte(k)), c.state, hx6(c.contact.PublicRendezvousSeed), string(c.contact.Metadata)))
		// the other getters agree with ListContacts
		n := 0
		for _, sc := range ms.ListContactsByStatus(c.state) {
			if string(sc.Pk) == k {
				n++
			}
		}
		if n != 1 {
			cs = append(cs, fmt.Sprintf("INCONSISTENT ListContactsByStatus(%s) lists %s %d times", c.state, hx6([]byte(k)), n))
		}
		pk, err := c.contact.GetPubKey()
		if err == nil {
			if g, err := ms.secretStore.GetGroupForContact(pk); err == nil {
				sc := ms.GetContactFromGroupPK(g.PublicKey)
				if sc == nil || string(sc.Pk) != k || string(sc.PublicRendezvousSeed) != string(c.contact.PublicRendezvousSeed) {
					cs = append(cs, fmt.Sprintf("INCONSISTENT GetContactFromGroupPK for %s", hx6([]byte(k))))
				}
			}
		}
	}
	// every state not held by any contact lists nobody
	sort.Strings(cs)
	return fmt.Sprint(cs)
}

type c07Case struct {
	History []mOp  `json:"history"`
	Op      *mOp   `json:"op,omitempty"`
	Detail  string `json:"detail"`
}

func c07Alphabet(contacts []string) []mOp {
	var out []mOp
	for _, c := range contacts {
		out = append(out, mOp{"enqueue", c, 1}, mOp{"enqueue", c, 2}, mOp{"enqueue", c, 3}, mOp{"sent", c, 0}, mOp{"received", c, 1}, mOp{"received", c, 2}, mOp{"discard", c, 0}, mOp{"accept", c, 0}, mOp{"block", c, 0}, mOp{"unblock", c, 0})
	}
	return out
}

func (e *mEnv) seedVariant2(v int) []byte { return e.seedVariant(v) }

// c07Explore: BFS over the reference state; in every reached state every operation is applied on the real store.
func c07Explore(rep *vrep.Report, t *testing.T, contacts []string, depth int, everyHistory bool) {
	alpha := append(c07Alphabet(contacts), mOp{"enqueue", "SELF", 1}, mOp{"received", "SELF", 1}, mOp{"block", "SELF", 0}, mOp{"sent", "SELF", 0}, mOp{"accept", "SELF", 0}, mOp{"discard", "SELF", 0}, mOp{"unblock", "SELF", 0})
	type node struct {
		hist []mOp
		ref  *lifecycle
	}
	seen := map[string]bool{"": true}
	frontier := []node{{nil, newLifecycle()}}
	var mu sync.Mutex
	var states, transitions int64 = 1, 0
	maxDepth := 0
	for level := 0; level <= depth && len(frontier) > 0; level++ {
		var next []node
		var wg sync.WaitGroup
		sem := make(chan struct{}, 12)
		for _, n := range frontier {
			n := n
			wg.Add(1)
			sem <- struct{}{}
			go func() {
				defer func() { <-sem; wg.Done() }()
				w := newVWorld(t, vrep.Seed())
				defer w.close()
				viol := func(kind, desc string, op *mOp) {
					rep.Violation("C07/"+kind, fmt.Sprintf("after %v: %s", n.hist, desc), c07Case{History: n.hist, Op: op, Detail: desc})
				}
				// state checks for this (new) reference state: writer, reopened writer, replica
				d := w.newDevice("A", nextDev("k"))
				gc := d.open(d.accountGroup())
				env := newMEnv(w.seed, gc.MemberPubKey())
				for _, op := range n.hist {
					_ = env.apply(w.ctx, gc.MetadataStore(), op)
				}
				want := n.ref.contactsString(env)
				if got := realContacts(env, gc.MetadataStore()); got != want {
					viol("writer-differs-from-lifecycle", "writer reports "+got+", reference lifecycle says "+want, nil)
				}
				hashes := logHashes(gc.MetadataStore())
				if len(hashes) > 0 {
					r := w.newDevice("A", nextDev("k"))
					rgc := r.open(r.accountGroup())
					w.deliver(rgc.MetadataStore(), reverseCids(hashes))
					if got := realContacts(env, rgc.MetadataStore()); got != want {
						viol("replica-differs-from-lifecycle", "a replica that replays the log reports "+got+", reference lifecycle says "+want, nil)
					}
					_ = rgc.Close()
				}
				// malformed contacts and own key, in this state: all refused, nothing appended
				c07Malformed(rep, w, env, gc, n.hist)
				if level == depth {
					gc2 := d.reopen(gc)
					if got := realContacts(env, gc2.MetadataStore()); got != want {
						viol("reopened-differs-from-lifecycle", "after reopening the group the writer reports "+got+", reference lifecycle says "+want, nil)
					}
					_ = gc2.Close()
					return
				}
				baseLen := gc.MetadataStore().OpLog().Len()
				_ = gc
				// every operation of the alphabet from this state, each on a fresh replay
				for _, op := range alpha {
					op := op
					d2 := w.newDevice("A", nextDev("k"))
					g2 := d2.open(d2.accountGroup())
					for _, h := range n.hist {
						_ = env.apply(w.ctx, g2.MetadataStore(), h)
					}
					ref := n.ref.clone()
					allowed := ref.apply(env, op)
					err := env.apply(w.ctx, g2.MetadataStore(), op)
					newLen := g2.MetadataStore().OpLog().Len()
					mu.Lock()
					transitions++
					mu.Unlock()
					st := sUndef
					if op.Contact != "SELF" {
						st = n.ref.get(op.Contact).state
					}
					rep.Eval(fmt.Sprintf("%s/in-%s/allowed=%v/err=%v", op.Kind, strings.TrimPrefix(st.String(), "ContactState"), allowed, err != nil))
					if allowed && err != nil {
						viol("allowed-operation-refused", fmt.Sprintf("%v is allowed in state %s and was refused: %v", op, st, err), &op)
					}
					if !allowed && err == nil {
						viol("illegal-transition-accepted", fmt.Sprintf("%v is not allowed in state %s and was accepted", op, st), &op)
					}
					if !allowed && newLen != baseLen {
						viol("refused-operation-appended", fmt.Sprintf("%v: log length %d -> %d", op, baseLen, newLen), &op)
					}
					if allowed && err == nil && newLen != baseLen+1 {
						viol("operation-appended-wrong-count", fmt.Sprintf("%v: log length %d -> %d", op, baseLen, newLen), &op)
					}
					if allowed && err == nil {
						if got, want := realContacts(env, g2.MetadataStore()), ref.contactsString(env); got != want {
							viol("writer-differs-from-lifecycle", fmt.Sprintf("after %v the writer reports %s, reference lifecycle says %s", op, got, want), &op)
						}
						key := ref.canon()
						if everyHistory {
							// no merging of histories that reach the same reference state: the real store is driven
							// through every sequence of accepted operations up to the depth
							key = fmt.Sprint(append(append([]mOp{}, n.hist...), op))
						}
						mu.Lock()
						if !seen[key] {
							seen[key] = true
							states++
							next = append(next, node{append(append([]mOp{}, n.hist...), op), ref})
						}
						mu.Unlock()
					}
					_ = g2.Close()
					_ = d2.odb.Close()
				}
				gc2 := d.reopen(gc)
				if got := realContacts(env, gc2.MetadataStore()); got != want {
					viol("reopened-differs-from-lifecycle", "after reopening the group the writer reports "+got+", reference lifecycle says "+want, nil)
				}
				_ = gc2.Close()
			}()
		}
		wg.Wait()
		if len(frontier) > 0 {
			maxDepth = level
		}
		frontier = next
	}
	rep.AddStates(states)
	rep.AddTransitions(transitions)
	rep.AddTraces(transitions)
	rep.Sample(map[string]interface{}{"contacts": contacts, "depth": depth, "every_history": everyHistory, "reference_states": states, "transitions": transitions, "deepest_level": maxDepth, "open_frontier_at_depth": len(frontier)})
}

func c07Malformed(rep *vrep.Report, w *vWorld, env *mEnv, gc *GroupContext, hist []mOp) {
	ms := gc.MetadataStore()
	base := ms.OpLog().Len()
	before := realContacts(env, ms)
	xpk, _ := env.contacts["X"].Raw()
	seed := env.seedVariant(1)
	type mal struct {
		name string
		c    *protocoltypes.ShareableContact
		enqueueMustFail, receivedMustFail bool
	}
	cases := []mal{
		{"missing-seed", &protocoltypes.ShareableContact{Pk: xpk}, true, false},
		{"seed-31", &protocoltypes.ShareableContact{Pk: xpk, PublicRendezvousSeed: seed[:31]}, true, true},
		{"seed-33", &protocoltypes.ShareableContact{Pk: xpk, PublicRendezvousSeed: append(append([]byte{}, seed...), 1)}, true, true},
		{"empty-key", &protocoltypes.ShareableContact{PublicRendezvousSeed: seed}, true, true},
		{"key-31", &protocoltypes.ShareableContact{Pk: xpk[:31], PublicRendezvousSeed: seed}, true, true},
		{"key-33", &protocoltypes.ShareableContact{Pk: append(append([]byte{}, xpk...), 1), PublicRendezvousSeed: seed}, true, true},
	}
	for _, m := range cases {
		for _, kind := range []string{"enqueue", "received"} {
			must := m.enqueueMustFail
			if kind == "received" {
				must = m.receivedMustFail
			}
			if !must {
				continue // allowed form (received without seed): covered by the lifecycle alphabet's variants
			}
			var err error
			var pan interface{}
			func() {
				defer func() { pan = recover() }()
				if kind == "enqueue" {
					_, err = ms.ContactRequestOutgoingEnqueue(w.ctx, m.c, []byte("own"))
				} else {
					_, err = ms.ContactRequestIncomingReceived(w.ctx, m.c)
				}
			}()
			rep.Eval(fmt.Sprintf("malformed/%s/%s/refused=%v", kind, m.name, err != nil))
			if pan != nil {
				rep.Violation("C07/malformed-contact-panics", fmt.Sprintf("after %v: %s with %s panics: %v", hist, kind, m.name, pan), c07Case{History: hist, Detail: kind + "/" + m.name})
				continue
			}
			if err == nil || ms.OpLog().Len() != base {
				rep.Violation("C07/malformed-contact-accepted", fmt.Sprintf("after %v: %s with %s: err=%v, log length %d -> %d", hist, kind, m.name, err, base, ms.OpLog().Len()), c07Case{History: hist, Detail: kind + "/" + m.name})
				base = ms.OpLog().Len()
			}
		}
	}
	if after := realContacts(env, ms); after != before {
		rep.Violation("C07/malformed-contact-changed-state", fmt.Sprintf("after %v", hist), c07Case{History: hist})
	}
}

func TestVerifC07(t *testing.T) {
	rep := vrep.New("C07")
	defer func() {
		if err := rep.Finish(); err != nil {
			t.Fatal(err)
		}
		if rep.NViolations() > 0 {
			t.Fail()
		}
	}()
	d1, d2 := 4, 2
	if vrep.Thorough() {
		d1, d2 = 6, 3
	}
	c07Explore(rep, t, []string{"X"}, d1, false)
	c07Explore(rep, t, []string{"X", "Y"}, d2, false)
	c07Explore(rep, t, []string{"O"}, 3, false)
	if vrep.Thorough() {
		c07Explore(rep, t, []string{"X"}, 6, true)
	} else {
		c07Explore(rep, t, []string{"X"}, 3, true)
	}
}
