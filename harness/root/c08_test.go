//go:build verif

package weshnet

import (
	"context"
	"fmt"
	"sort"
	"strings"
	"testing"
	"time"

	"github.com/ipfs/go-datastore"
	dssync "github.com/ipfs/go-datastore/sync"
	"github.com/libp2p/go-libp2p/core/event"
	"github.com/prometheus/client_golang/prometheus"
	"go.uber.org/zap"
	"google.golang.org/protobuf/proto"

	ipfslog "berty.tech/go-ipfs-log"
	"berty.tech/go-ipfs-log/entry"
	"berty.tech/go-orbit-db/stores/operation"
	"berty.tech/weshnet/v2/internal/datastoreutil"
	"berty.tech/weshnet/v2/internal/zzverif/vrep"
	"berty.tech/weshnet/v2/internal/zzverif/vsync"
	"berty.tech/weshnet/v2/pkg/ipfsutil"
	"berty.tech/weshnet/v2/pkg/protocoltypes"
	"berty.tech/weshnet/v2/pkg/secretstore"
)

// The message pipeline of one receiving device under the controlled scheduler: the real processMessageLoop, the real
// addToMessageQueue and the real handleGroupMetadataEvent run as scheduler threads over a MessageStore that has no
// orbit-db log behind it (entries are constructed, the event emitters record).

type recEmitter struct{ got *[]interface{} }

func (r recEmitter) Emit(evt interface{}) error { *r.got = append(*r.got, evt); return nil }
func (r recEmitter) Close() error               { return nil }

var _ event.Emitter = recEmitter{}

func c08SecretStore(seed int64, acct, dev string, window int) secretstore.SecretStore {
	ds := dssync.MutexWrap(datastore.NewMapDatastore())
	ks := ipfsutil.NewDatastoreKeystore(datastoreutil.NewNamespacedDatastore(ds, datastore.NewKey("device_keystore")))
	vmust(ks.Put("accountSK", vDetKey(seed, "acct/"+acct)))
	vmust(ks.Put("accountProofSK", vDetKey(seed, "proof/"+acct)))
	vmust(ks.Put("deviceSK", vDetKey(seed, "dev/"+acct+"/"+dev)))
	ss, err := secretstore.NewSecretStore(ds, &secretstore.NewSecretStoreOptions{Keystore: ks, PreComputedKeysCount: window})
	vmust(err)
	return ss
}

type c08Sender struct {
	ss      secretstore.SecretStore
	md      secretstore.OwnMemberDevice
	dev     []byte
	entries []ipfslog.Entry
	payload []string
	keyEvt  *protocoltypes.GroupMetadataEvent
}

type c08Scenario struct {
	Name      string
	Senders   int
	Msgs      int      // per sender
	Arrivals  [][]string // per arrival thread: entry labels "s0/1" in order ("s0/1+s0/2" = nothing special, entries are added one by one)
	KeyBefore []bool   // per sender: chain key registered before anything arrives
	Window    int
	Cancel    bool
	// AnnAfter: the senders' chain-key announcements are made after that many of their messages have been sealed
	// (a late joiner): messages 1..AnnAfter can never be opened by this receiver, the later ones must be delivered
	AnnAfter int
}

type c08World struct {
	store   *MessageStore
	gc      *GroupContext
	emitted []interface{}
	cached  []interface{}
	senders []*c08Sender
	lDone   bool
	cancelled bool
	arrivals map[string]int
	errs    []string
	annAfter int
}

func c08Build(seed int64, sc c08Scenario) vsync.Scenario {
	return vsync.Scenario{
		Name: sc.Name,
		Setup: func(s *vsync.Sched) vsync.World {
			w := &c08World{arrivals: map[string]int{}, annAfter: sc.AnnAfter}
			g := vDetGroup(seed, "G-c08")
			gpk, _ := g.GetPubKey()
			rss := c08SecretStore(seed, "R", "1", sc.Window)
			rmd, err := rss.GetOwnMemberDeviceForGroup(g)
			vmust(err)
			_, err = rss.GetShareableChainKey(context.Background(), g, rmd.Member())
			vmust(err)
			rdev, _ := rmd.Device().Raw()
			for si := 0; si < sc.Senders; si++ {
				sd := &c08Sender{ss: c08SecretStore(seed, fmt.Sprintf("S%d", si), "1", sc.Window)}
				sd.md, err = sd.ss.GetOwnMemberDeviceForGroup(g)
				vmust(err)
				sd.dev, _ = sd.md.Device().Raw()
				announce := func() {
					ann, err := sd.ss.GetShareableChainKey(context.Background(), g, rmd.Member())
					vmust(err)
					rmem, _ := rmd.Member().Raw()
					pl, _ := proto.Marshal(&protocoltypes.GroupDeviceChainKeyAdded{DevicePk: sd.dev, DestMemberPk: rmem, Payload: ann})
					sd.keyEvt = &protocoltypes.GroupMetadataEvent{Metadata: &protocoltypes.GroupMetadata{EventType: protocoltypes.EventType_EventTypeGroupDeviceChainKeyAdded, Payload: pl}, Event: pl}
				}
				if sc.AnnAfter == 0 {
					announce()
				} else {
					// the device's own chain exists from the activation of the group on (announcement to its own member)
					_, err = sd.ss.GetShareableChainKey(context.Background(), g, sd.md.Member())
					vmust(err)
				}
				for i := 1; i <= sc.Msgs; i++ {
					body := fmt.Sprintf("s%d/%d", si, i)
					msg, _ := proto.Marshal(&protocoltypes.EncryptedMessage{Plaintext: []byte(body), ProtocolMetadata: &protocoltypes.ProtocolMetadata{}})
					env, err := sd.ss.SealEnvelope(context.Background(), g, msg)
					vmust(err)
					op := operation.NewOperation(nil, "ADD", env)
					opb, err := op.Marshal()
					vmust(err)
					sd.entries = append(sd.entries, &entry.Entry{Payload: opb, Hash: cidOfBytes(opb), LogID: "c08"})
					sd.payload = append(sd.payload, body)
					if i == sc.AnnAfter {
						announce()
					}
				}
				w.senders = append(w.senders, sd)
			}
			tracer := newMessageMetricsTracer(prometheus.NewRegistry())
			w.store = &MessageStore{
				secretStore:               rss,
				messagesQueue:             newMessageQueue("cache", tracer),
				group:                     g,
				groupPublicKey:            gpk,
				logger:                    zap.NewNop(),
				deviceCaches:              make(map[string]*groupCache),
				currentDevicePublicKey:    rmd.Device(),
				currentDevicePublicKeyRaw: rdev,
			}
			w.store.emitters.groupMessage = recEmitter{&w.emitted}
			w.store.emitters.groupCacheMessage = recEmitter{&w.cached}
			w.gc = NewContextGroup(g, nil, w.store, rss, rmd, nil)
			ctx, cancel := context.WithCancel(context.Background())
			for si, before := range sc.KeyBefore {
				if before {
					vmust(w.gc.handleGroupMetadataEvent(w.senders[si].keyEvt))
				}
			}
			lt := vsync.GoNamed("L", func() {
				w.store.processMessageLoop(ctx, tracer)
				w.lDone = true
			})
			lt.SetDaemon()
			for ai, labels := range sc.Arrivals {
				labels := labels
				vsync.GoNamed(fmt.Sprintf("A%d", ai+1), func() {
					for _, l := range labels {
						var si, mi int
						fmt.Sscanf(l, "s%d/%d", &si, &mi)
						w.arrivals[l]++
						if err := w.store.addToMessageQueue(ctx, w.senders[si].entries[mi-1]); err != nil {
							w.errs = append(w.errs, err.Error())
						}
					}
				})
			}
			for si, before := range sc.KeyBefore {
				if !before {
					si := si
					vsync.GoNamed(fmt.Sprintf("K%d", si), func() {
						if err := w.gc.handleGroupMetadataEvent(w.senders[si].keyEvt); err != nil {
							w.errs = append(w.errs, err.Error())
						}
					})
				}
			}
			if sc.Cancel {
				vsync.GoNamed("X", func() {
					vsync.PointHere("cancel")
					w.cancelled = true
					cancel()
				})
			}
			_ = cancel
			return w
		},
		Check: func(x *vsync.Execution, wd vsync.World) (string, *vsync.Verdict) {
			w := wd.(*c08World)
			got := map[string]int{}
			var order []string
			for _, e := range w.emitted {
				ev := e.(*protocoltypes.GroupMessageEvent)
				body := string(ev.Message)
				got[body]++
				order = append(order, body)
				// sender attribution
				var si, mi int
				fmt.Sscanf(body, "s%d/%d", &si, &mi)
				if si >= len(w.senders) || string(ev.Headers.DevicePk) != string(w.senders[si].dev) || ev.Headers.Counter != uint64(mi) {
					return body, &vsync.Verdict{Sig: "C08/wrong-attribution", Desc: fmt.Sprintf("message %q delivered with device %x counter %d", body, ev.Headers.DevicePk, ev.Headers.Counter)}
				}
			}
			var pending []string
			for si, sd := range w.senders {
				// messages sealed before the announcement stay parked for ever, legitimately
				legit := 0
				for l, n := range w.arrivals {
					var lsi, lmi int
					fmt.Sscanf(l, "s%d/%d", &lsi, &lmi)
					if lsi == si && lmi <= w.annAfter {
						legit += n
					}
				}
				if n, ok := w.store.CacheSizeForDevicePK(sd.dev); ok && n > legit {
					pending = append(pending, fmt.Sprintf("s%d:%d", si, n-legit))
				}
			}
			o := fmt.Sprintf("delivered=%v parked=%v queue=%d ldone=%v", order, pending, w.store.messagesQueue.VerifLen(), w.lDone)
			if len(x.Panics) > 0 {
				return o, &vsync.Verdict{Sig: "C08/panic", Desc: strings.Join(x.Panics, "\n")}
			}
			if x.Horizon {
				return o, &vsync.Verdict{Sig: "C08/horizon", Desc: "step horizon exceeded"}
			}
			if len(w.errs) > 0 {
				return o, &vsync.Verdict{Sig: "C08/pipeline-error", Desc: fmt.Sprint(w.errs)}
			}
			if x.Deadlock {
				return o, &vsync.Verdict{Sig: "C08/deadlock", Desc: fmt.Sprint(x.BlockedAll)}
			}
			if w.cancelled {
				if !w.lDone {
					return o, &vsync.Verdict{Sig: "C08/cancel-ignored", Desc: fmt.Sprintf("context cancelled, the message loop is still blocked: %v", x.BlockedAll)}
				}
				// after cancellation only "at most once per arrival" is required
				for l, n := range got {
					if n > w.arrivals[l] {
						return o, &vsync.Verdict{Sig: "C08/delivered-more-than-arrived", Desc: fmt.Sprintf("%s arrived %d time(s), delivered %d", l, w.arrivals[l], n)}
					}
				}
				return o, nil
			}
			// quiescence: every other thread has finished, the loop is parked waiting for work
			if w.store.messagesQueue.VerifLen() > 0 {
				return o, &vsync.Verdict{Sig: "C08/loop-asleep-with-work", Desc: fmt.Sprintf("the message loop is parked (%v) while %d item(s) wait in the main queue", x.BlockedAll, w.store.messagesQueue.VerifLen())}
			}
			var labels []string
			for l := range w.arrivals {
				labels = append(labels, l)
			}
			sort.Strings(labels)
			for _, l := range labels {
				// every sender's chain key has been registered by now and every counter is reachable (all messages of
				// the sender have arrived), so every arrived message must have been delivered
				var lsi, lmi int
				fmt.Sscanf(l, "s%d/%d", &lsi, &lmi)
				if lmi <= w.annAfter {
					if got[l] > 0 {
						return o, &vsync.Verdict{Sig: "C08/delivered-message-sealed-before-the-announcement", Desc: l}
					}
					continue
				}
				if got[l] == 0 {
					return o, &vsync.Verdict{Sig: "C08/message-stays-parked", Desc: fmt.Sprintf("message %s arrived, its sender's chain key is registered, nothing else is running, and it was never delivered (parked per device: %v, delivered: %v)", l, pending, order)}
				}
				if got[l] > w.arrivals[l] {
					return o, &vsync.Verdict{Sig: "C08/delivered-more-than-arrived", Desc: fmt.Sprintf("%s arrived %d time(s), delivered %d", l, w.arrivals[l], got[l])}
				}
			}
			if len(pending) > 0 {
				return o, &vsync.Verdict{Sig: "C08/message-stays-parked", Desc: fmt.Sprintf("device caches still hold %v at quiescence", pending)}
			}
			return o, nil
		},
	}
}

func TestVerifC08(t *testing.T) {
	rep := vrep.New("C08")
	defer func() {
		if err := rep.Finish(); err != nil {
			t.Fatal(err)
		}
		if rep.NViolations() > 0 {
			t.Fail()
		}
	}()
	seed := vrep.Seed()
	var scs []vsync.Scenario
	add := func(sc c08Scenario) {
		v := c08Build(seed, sc)
		if sc.Senders > 1 && !vrep.Thorough() {
			v.Bound = 1 // two senders: bound 1 in the quick tier (bound 2 takes ~500k executions)
		}
		scs = append(scs, v)
	}
	add(c08Scenario{Name: "1 message, key concurrent", Senders: 1, Msgs: 1, Arrivals: [][]string{{"s0/1"}}, KeyBefore: []bool{false}, Window: 4})
	add(c08Scenario{Name: "1 message, key before", Senders: 1, Msgs: 1, Arrivals: [][]string{{"s0/1"}}, KeyBefore: []bool{true}, Window: 4})
	add(c08Scenario{Name: "2 messages in order, key concurrent", Senders: 1, Msgs: 2, Arrivals: [][]string{{"s0/1", "s0/2"}}, KeyBefore: []bool{false}, Window: 4})
	add(c08Scenario{Name: "2 messages reversed, key concurrent", Senders: 1, Msgs: 2, Arrivals: [][]string{{"s0/2", "s0/1"}}, KeyBefore: []bool{false}, Window: 4})
	add(c08Scenario{Name: "2 messages, two arrival threads, key before", Senders: 1, Msgs: 2, Arrivals: [][]string{{"s0/1"}, {"s0/2"}}, KeyBefore: []bool{true}, Window: 4})
	add(c08Scenario{Name: "beyond the window first (w=1), key before", Senders: 1, Msgs: 2, Arrivals: [][]string{{"s0/2", "s0/1"}}, KeyBefore: []bool{true}, Window: 1})
	// the per-device cache must hand out the smallest counter first: with a window of one key only message 1 can open
	// when the key arrives, and message 2 only after it
	add(c08Scenario{Name: "2 messages parked, window of 1, key concurrent", Senders: 1, Msgs: 2, Arrivals: [][]string{{"s0/2", "s0/1"}}, KeyBefore: []bool{false}, Window: 1})
	add(c08Scenario{Name: "duplicate arrival, key before", Senders: 1, Msgs: 1, Arrivals: [][]string{{"s0/1"}, {"s0/1"}}, KeyBefore: []bool{true}, Window: 4})
	add(c08Scenario{Name: "two senders, keys concurrent", Senders: 2, Msgs: 1, Arrivals: [][]string{{"s0/1", "s1/1"}}, KeyBefore: []bool{false, false}, Window: 4})
	// a late joiner: message 1 was sealed before the announcement (never openable here), message 2 after it; both
	// are parked when the announcement is handled
	add(c08Scenario{Name: "late joiner: 1 old + 1 new message parked, key concurrent", Senders: 1, Msgs: 2, Arrivals: [][]string{{"s0/1", "s0/2"}}, KeyBefore: []bool{false}, Window: 4, AnnAfter: 1})
	add(c08Scenario{Name: "late joiner: new message first, then the old one, key concurrent", Senders: 1, Msgs: 2, Arrivals: [][]string{{"s0/2", "s0/1"}}, KeyBefore: []bool{false}, Window: 4, AnnAfter: 1})
	add(c08Scenario{Name: "late joiner: 1 old + 1 new message, key before", Senders: 1, Msgs: 2, Arrivals: [][]string{{"s0/1", "s0/2"}}, KeyBefore: []bool{true}, Window: 4, AnnAfter: 1})
	// the retry after a success must reach every parked message, not only the oldest: message 1 can never be opened,
	// message 3 is beyond the window of one key until message 2 has been opened
	add(c08Scenario{Name: "late joiner, window of 1: old message and a message beyond the window parked, key before", Senders: 1, Msgs: 3, Arrivals: [][]string{{"s0/1", "s0/3", "s0/2"}}, KeyBefore: []bool{true}, Window: 1, AnnAfter: 1})
	// a long history before the announcement: 40 messages that can never be opened here are parked in front of the
	// two that can (more than any batch limit a flush of the per-device cache might have)
	{
		var labels []string
		for i := 1; i <= 42; i++ {
			labels = append(labels, fmt.Sprintf("s0/%d", i))
		}
		v := c08Build(seed, c08Scenario{Name: "late joiner: 40 old + 2 new messages parked, key concurrent", Senders: 1, Msgs: 42, Arrivals: [][]string{labels}, KeyBefore: []bool{false}, Window: 4, AnnAfter: 40})
		v.Bound = 1
		scs = append(scs, v)
	}
	add(c08Scenario{Name: "1 message, key concurrent, cancel", Senders: 1, Msgs: 1, Arrivals: [][]string{{"s0/1"}}, KeyBefore: []bool{false}, Window: 4, Cancel: true})
	bound, budget := 2, 6*time.Minute
	if vrep.Thorough() {
		bound, budget = 3, 25*time.Minute
		add(c08Scenario{Name: "3 messages shuffled, key concurrent", Senders: 1, Msgs: 3, Arrivals: [][]string{{"s0/3", "s0/1"}, {"s0/2"}}, KeyBefore: []bool{false}, Window: 4})
		add(c08Scenario{Name: "two senders x 2, one key before", Senders: 2, Msgs: 2, Arrivals: [][]string{{"s0/1", "s1/2"}, {"s1/1", "s0/2"}}, KeyBefore: []bool{true, false}, Window: 4})
	}
	vsync.ExploreScenarios(rep, "pipeline", scs, bound, 3000, budget)
}
