//go:build verif

package weshnet

import (
	"bytes"
	"fmt"
	"testing"

	"github.com/libp2p/go-libp2p/core/crypto"
	"google.golang.org/protobuf/proto"

	"berty.tech/weshnet/v2/internal/zzverif/vrep"
	"berty.tech/weshnet/v2/pkg/protocoltypes"
)

type c12Case struct {
	Invitation string `json:"invitation"`
	Mutation   string `json:"mutation"`
}

type c12Mut struct {
	name string
	g    *protocoltypes.Group
}

// c12Mutations is the catalogue of altered invitations: every single-bit flip, removal and truncation of the three
// byte fields, every other group type, and secret/signature taken from another invitation.
func c12Mutations(seed int64, inv *protocoltypes.Group) []c12Mut {
	var muts []c12Mut
	flipAll := func(field string, get func(g *protocoltypes.Group) *[]byte) {
		n := len(*get(inv))
		for bit := 0; bit < n*8; bit++ {
			g := proto.Clone(inv).(*protocoltypes.Group)
			b := append([]byte{}, (*get(g))...)
			b[bit/8] ^= 1 << uint(bit%8)
			*get(g) = b
			muts = append(muts, c12Mut{fmt.Sprintf("bitflip-%s", field), g})
		}
		g := proto.Clone(inv).(*protocoltypes.Group)
		*get(g) = nil
		muts = append(muts, c12Mut{"removed-" + field, g})
		g2 := proto.Clone(inv).(*protocoltypes.Group)
		*get(g2) = (*get(g2))[:n-1]
		muts = append(muts, c12Mut{"truncated-" + field, g2})
	}
	flipAll("public-key", func(g *protocoltypes.Group) *[]byte { return &g.PublicKey })
	flipAll("secret", func(g *protocoltypes.Group) *[]byte { return &g.Secret })
	flipAll("signature", func(g *protocoltypes.Group) *[]byte { return &g.SecretSig })
	// bytes appended (a length change leaves every original bit in place)
	for _, extra := range [][]byte{{0}, {0x42}, bytes.Repeat([]byte{0}, 32)} {
		extra := extra
		for _, f := range []struct {
			name string
			get  func(g *protocoltypes.Group) *[]byte
		}{{"public-key", func(g *protocoltypes.Group) *[]byte { return &g.PublicKey }}, {"secret", func(g *protocoltypes.Group) *[]byte { return &g.Secret }}, {"signature", func(g *protocoltypes.Group) *[]byte { return &g.SecretSig }}} {
			g := proto.Clone(inv).(*protocoltypes.Group)
			*f.get(g) = append(append([]byte{}, (*f.get(g))...), extra...)
			muts = append(muts, c12Mut{"extended-" + f.name, g})
		}
	}
	for _, gt := range []int32{0, 1, 2, 4, -1, 99} {
		g := proto.Clone(inv).(*protocoltypes.Group)
		g.GroupType = protocoltypes.GroupType(gt)
		muts = append(muts, c12Mut{fmt.Sprintf("group-type-%d", gt), g})
	}
	// secret and signature taken from another invitation
	other := vDetGroup(seed, "c12-other")
	{
		g := proto.Clone(inv).(*protocoltypes.Group)
		g.Secret, g.SecretSig = other.Secret, other.SecretSig
		muts = append(muts, c12Mut{"secret-and-signature-of-another-group", g})
		g2 := proto.Clone(inv).(*protocoltypes.Group)
		g2.Secret = other.Secret
		muts = append(muts, c12Mut{"secret-of-another-group", g2})
	}
	return muts
}

func TestVerifC12(t *testing.T) {
	rep := vrep.New("C12")
	defer func() {
		if err := rep.Finish(); err != nil {
			t.Fatal(err)
		}
		if rep.NViolations() > 0 {
			t.Fail()
		}
	}()
	seed := vrep.Seed()
	w := newVWorld(t, seed)
	defer w.close()
	d := w.newDevice("A", "1")
	gcAcc := d.open(d.accountGroup())
	ms := gcAcc.MetadataStore()
	accSK, err := d.ss.GetAccountPrivateKey()
	vmust(err)
	accPK, _ := accSK.GetPublic().Raw()
	_, accMD, err := d.ss.GetGroupForAccount()
	vmust(err)
	accDev, _ := accMD.Device().Raw()

	tryJoin := func(g *protocoltypes.Group) (err error, appended bool, pan interface{}) {
		before := ms.OpLog().Len()
		func() {
			defer func() { pan = recover() }()
			_, err = ms.GroupJoin(w.ctx, g)
		}()
		return err, ms.OpLog().Len() != before, pan
	}
	for _, label := range []string{"inv-1", "inv-2"} {
		inv := vDetGroup(seed, "c12-"+label)
		muts := c12Mutations(seed, inv)
		for _, m := range muts {
			err, appended, pan := tryJoin(m.g)
			cls := m.name
			rep.Eval(fmt.Sprintf("invitation/%s/refused=%v/appended=%v", cls, err != nil, appended))
			if pan != nil {
				rep.Violation("C12/join-panics", fmt.Sprintf("invitation %s, %s: %v", label, m.name, pan), c12Case{label, m.name})
				continue
			}
			if err == nil || appended {
				rep.Violation("C12/altered-invitation-accepted/"+cls, fmt.Sprintf("invitation %s with mutation '%s' is joined (err=%v, entry appended=%v)", label, m.name, err, appended), c12Case{label, m.name})
				// what identity would the account use in it?
				if md, e2 := d.ss.GetOwnMemberDeviceForGroup(m.g); e2 == nil {
					mb, _ := md.Member().Raw()
					if bytes.Equal(mb, accPK) {
						rep.Violation("C12/acts-under-account-identity", fmt.Sprintf("in the group joined from invitation %s ('%s') the account acts under its account key", label, m.name), c12Case{label, m.name})
					}
				}
				// leave again so that the next mutation starts from "not joined"
				if pk, e3 := m.g.GetPubKey(); e3 == nil {
					_, _ = ms.GroupLeave(w.ctx, pk)
				}
			}
		}
		// the valid invitation is accepted, and the account acts under group-specific keys
		err, appended, pan := tryJoin(inv)
		rep.Eval(fmt.Sprintf("invitation/valid/accepted=%v", err == nil && appended && pan == nil))
		if err != nil || !appended || pan != nil {
			rep.Violation("C12/valid-invitation-refused", fmt.Sprintf("invitation %s: err=%v appended=%v panic=%v", label, err, appended, pan), c12Case{label, "valid"})
			continue
		}
		gc := d.open(inv)
		mb, _ := gc.MemberPubKey().Raw()
		db, _ := gc.DevicePubKey().Raw()
		okID := !bytes.Equal(mb, accPK) && !bytes.Equal(db, accDev) && !bytes.Equal(mb, accDev) && !bytes.Equal(db, accPK)
		rep.Eval(fmt.Sprintf("identity/group-specific=%v", okID))
		if !okID {
			rep.Violation("C12/acts-under-account-identity", fmt.Sprintf("in group %s joined by invitation the member/device keys are account-level keys", label), c12Case{label, "identity"})
		}
		// what it announces in the group carries those keys
		_, err = gc.MetadataStore().AddDeviceToGroup(w.ctx)
		vmust(err)
		for _, e := range gc.MetadataStore().OpLog().Values().Slice() {
			_, ev, err := vOpenMetadataEntry(gc.MetadataStore().OpLog(), e, inv)
			vmust(err)
			if a, ok := ev.(*protocoltypes.GroupMemberDeviceAdded); ok {
				if bytes.Equal(a.MemberPk, accPK) || bytes.Equal(a.DevicePk, accDev) {
					rep.Violation("C12/acts-under-account-identity", "device announcement in the joined group carries account-level keys", c12Case{label, "announcement"})
				}
				rep.Eval("identity/announcement-checked")
			}
		}
		rep.Sample(map[string]interface{}{"invitation": label, "mutations": len(muts)})
	}

	// ---- replication descriptors
	dB := w.newDevice("B", "1")
	bSK, _ := dB.ss.GetAccountPrivateKey()
	gContact, err := d.ss.GetGroupForContact(bSK.GetPublic())
	vmust(err)
	for _, gr := range []struct {
		name string
		g    *protocoltypes.Group
	}{{"multimember", vDetGroup(seed, "c12-repl")}, {"account", d.accountGroup()}, {"contact", gContact}} {
		desc, err := FilterGroupForReplication(gr.g)
		if err != nil {
			rep.Violation("C12/descriptor-error", gr.name+": "+err.Error(), gr.name)
			continue
		}
		raw, _ := proto.Marshal(desc)
		leak := len(desc.Secret) != 0 || len(desc.SecretSig) != 0 || bytes.Contains(raw, gr.g.Secret)
		rep.Eval(fmt.Sprintf("descriptor/%s/contains-secret=%v", gr.name, leak))
		if leak {
			rep.Violation("C12/descriptor-contains-secret", gr.name+" group: the replication descriptor carries the group secret", gr.name)
		}
		// the same group as it may be held after an invitation that came with its optional public fields filled in
		// (signing public key, link key, link-key signature): whatever is already there, the descriptor never
		// carries the secret or its signature, and names the same group
		{
			var shapes []*protocoltypes.Group
			with := func(f func(g *protocoltypes.Group)) {
				g := proto.Clone(gr.g).(*protocoltypes.Group)
				f(g)
				shapes = append(shapes, g)
			}
			lk := desc.LinkKey
			for _, signPub := range [][]byte{nil, desc.SignPub, bytes.Repeat([]byte{7}, 32)} {
				for _, linkKey := range [][]byte{nil, lk, bytes.Repeat([]byte{9}, 32), bytes.Repeat([]byte{9}, 31)} {
					for _, linkSig := range [][]byte{nil, bytes.Repeat([]byte{5}, 64)} {
						signPub, linkKey, linkSig := signPub, linkKey, linkSig
						with(func(g *protocoltypes.Group) { g.SignPub, g.LinkKey, g.LinkKeySig = signPub, linkKey, linkSig })
					}
				}
			}
			for _, sg := range shapes {
				var d2 *protocoltypes.Group
				var ferr error
				func() {
					defer func() {
						if r := recover(); r != nil {
							ferr = fmt.Errorf("PANIC %v", r)
							rep.Violation("C12/descriptor-panics", fmt.Sprintf("%s group with sign_pub=%d link_key=%d link_key_sig=%d bytes: %v", gr.name, len(sg.SignPub), len(sg.LinkKey), len(sg.LinkKeySig), r), gr.name)
						}
					}()
					d2, ferr = FilterGroupForReplication(sg)
				}()
				rep.AddTransitions(1)
				if ferr != nil {
					rep.Eval(fmt.Sprintf("descriptor-shape/%s/error", gr.name))
					continue
				}
				raw2, _ := proto.Marshal(d2)
				leak2 := len(d2.Secret) != 0 || len(d2.SecretSig) != 0 || bytes.Contains(raw2, gr.g.Secret)
				rep.Eval(fmt.Sprintf("descriptor-shape/%s/sign-pub=%d/link-key=%d/contains-secret=%v", gr.name, len(sg.SignPub), len(sg.LinkKey), leak2))
				if leak2 {
					rep.Violation("C12/descriptor-contains-secret", fmt.Sprintf("%s group held with sign_pub=%d link_key=%d link_key_sig=%d bytes: the replication descriptor carries the group secret", gr.name, len(sg.SignPub), len(sg.LinkKey), len(sg.LinkKeySig)), gr.name)
				}
				if !bytes.Equal(d2.PublicKey, gr.g.PublicKey) {
					rep.Violation("C12/descriptor-names-another-group", gr.name, gr.name)
				}
				// the descriptor designates the logs the member uses: same access-controller address (the log address
				// is derived from it) for both stores, computed from the group as held and from its descriptor
				for _, st := range []string{"wesh_group_metadata", "wesh_group_messages"} {
					acFull, e1 := defaultACForGroup(sg, st)
					acDesc, e2 := defaultACForGroup(d2, st)
					same := e1 == nil && e2 == nil && acFull.GetAddress().Equals(acDesc.GetAddress())
					rep.Eval(fmt.Sprintf("descriptor-shape/%s/same-log-address=%v", gr.name, same))
					if (e1 == nil) != (e2 == nil) || (e1 == nil && !same) {
						rep.Violation("C12/descriptor-designates-other-logs", fmt.Sprintf("%s group held with sign_pub=%d link_key=%d bytes, %s store: the log address computed from the group (%v) and from its replication descriptor (%v) differ - the replication server would replicate logs nobody writes to", gr.name, len(sg.SignPub), len(sg.LinkKey), st, e1, e2), gr.name)
					}
				}
			}
			// a descriptor filtered again stays a descriptor
			if d3, err := FilterGroupForReplication(desc); err == nil && (len(d3.Secret) != 0 || len(d3.SecretSig) != 0) {
				rep.Violation("C12/descriptor-contains-secret", gr.name+": descriptor of a descriptor", gr.name)
			}
		}
		// produce a session: metadata events and messages in the group, by a real member
		gc := d.open(gr.g)
		if gr.name != "account" {
			_, err = gc.MetadataStore().AddDeviceToGroup(w.ctx)
			vmust(err)
		} else {
			_, err = gc.MetadataStore().ContactRequestReferenceReset(w.ctx)
			vmust(err)
		}
		_, err = gc.MetadataStore().SendAppMetadata(w.ctx, []byte("app metadata"))
		vmust(err)
		for i := 0; i < 2; i++ {
			_, err = gc.MessageStore().AddMessage(w.ctx, []byte(fmt.Sprintf("message %d", i)))
			vmust(err)
		}
		nEnv := 0
		for _, e := range gc.MetadataStore().OpLog().Values().Slice() {
			op, err := parseOp(e)
			vmust(err)
			nEnv++
			if _, _, err := vOpenGroupEnvelope(gr.g, op); err != nil {
				rep.Violation("HARNESS/c12", "member cannot open its own metadata: "+err.Error(), nil)
			}
			_, _, err = vOpenGroupEnvelope(desc, op)
			rep.Eval(fmt.Sprintf("descriptor/%s/metadata-envelope-opens=%v", gr.name, err == nil))
			if err == nil {
				rep.Violation("C12/descriptor-opens-metadata", gr.name+" group: a metadata event opens with the replication descriptor", gr.name)
			}
		}
		for _, e := range gc.MessageStore().OpLog().Values().Slice() {
			op, err := parseOp(e)
			vmust(err)
			nEnv++
			env, headers, err := d.ss.OpenEnvelopeHeaders(op, desc)
			rep.Eval(fmt.Sprintf("descriptor/%s/message-headers-open=%v", gr.name, err == nil))
			if err == nil {
				rep.Violation("C12/descriptor-opens-message-headers", gr.name+" group: message headers open with the replication descriptor", gr.name)
				if _, err := d.ss.OpenEnvelopePayload(w.ctx, env, headers, mustPub(desc), gc.DevicePubKey(), e.GetHash()); err == nil {
					rep.Violation("C12/descriptor-opens-message-payload", gr.name, gr.name)
				}
			}
		}
		// same log addresses
		for _, st := range []string{d.odb.groupMetadataStoreType, d.odb.groupMessageStoreType} {
			a1, err1 := defaultACForGroup(gr.g, st)
			a2, err2 := defaultACForGroup(desc, st)
			same := err1 == nil && err2 == nil && a1.GetAddress().String() == a2.GetAddress().String()
			rep.Eval(fmt.Sprintf("descriptor/%s/same-address=%v", gr.name, same))
			if !same {
				rep.Violation("C12/descriptor-designates-other-log", fmt.Sprintf("%s group, store %s: %v %v", gr.name, st, err1, err2), gr.name)
			}
		}
		rep.Sample(map[string]interface{}{"descriptor_of": gr.name, "envelopes_tried": nEnv})
	}
}

func mustPub(g *protocoltypes.Group) crypto.PubKey {
	pk, err := g.GetPubKey()
	vmust(err)
	return pk
}
