//go:build verif

package weshnet

import (
	"fmt"
	"testing"
	"time"

	"berty.tech/weshnet/v2/internal/zzverif/vrep"
	"berty.tech/weshnet/v2/pkg/protocoltypes"
)

// C08, history part (real stores, no scheduler): the three things that have to meet for a message to be delivered -
// the sender's chain-key announcement reaching the receiver's metadata log (K), the message reaching its message log
// (M, one or two messages), and the receiver's group context being activated (A) - in every order. Whatever the
// order, every message ends up delivered to subscribers and nothing stays in the per-device cache.
func TestVerifC08b(t *testing.T) {
	rep := vrep.New("C08")
	defer func() {
		if err := rep.Finish(); err != nil {
			t.Fatal(err)
		}
		if rep.NViolations() > 0 {
			t.Fail()
		}
	}()
	w := newVWorld(t, vrep.Seed())
	defer w.close()
	orders := [][]string{}
	var perm func(cur, rest []string)
	perm = func(cur, rest []string) {
		if len(rest) == 0 {
			orders = append(orders, append([]string{}, cur...))
			return
		}
		for i := range rest {
			nr := append(append([]string{}, rest[:i]...), rest[i+1:]...)
			perm(append(cur, rest[i]), nr)
		}
	}
	perm(nil, []string{"K", "M1", "A"})
	perm(nil, []string{"K", "M1", "M2", "A"})
	if vrep.Thorough() {
		perm(nil, []string{"K", "M2", "M1", "A", "reopen"})
	}
	for oi, order := range orders {
		// M2 before M1 is not a causal arrival order for a log: skip those
		i1, i2 := -1, -1
		for i, s := range order {
			if s == "M1" {
				i1 = i
			}
			if s == "M2" {
				i2 = i
			}
		}
		if i2 >= 0 && i2 < i1 {
			continue
		}
		g := vDetGroup(w.seed, fmt.Sprintf("c08b-%d", oi))
		dS, dR := w.newDevice("S", fmt.Sprintf("h%d", oi)), w.newDevice("R", fmt.Sprintf("h%d", oi))
		gcS, gcR := dS.open(g), dR.open(g)
		_, err := gcS.MetadataStore().AddDeviceToGroup(w.ctx)
		vmust(err)
		_, err = gcR.MetadataStore().AddDeviceToGroup(w.ctx)
		vmust(err)
		w.deliver(gcS.MetadataStore(), logHashes(gcR.MetadataStore()))
		_, err = gcS.MetadataStore().SendSecret(w.ctx, gcR.MemberPubKey())
		vmust(err)
		var msgHashes [][]byte
		_ = msgHashes
		for i := 1; i <= 2; i++ {
			_, err = gcS.MessageStore().AddMessage(w.ctx, []byte(fmt.Sprintf("message-%d", i)))
			vmust(err)
		}
		sHashes := logHashes(gcS.MessageStore())
		sub, err := gcR.MessageStore().EventBus().Subscribe(new(*protocoltypes.GroupMessageEvent))
		vmust(err)
		want := map[string]bool{}
		got := map[string]bool{}
		sdev, _ := gcS.DevicePubKey().Raw()
		// settle: the message loop has looked at every message handed over so far (it is either delivered or parked)
		settle := func() {
			deadline := time.Now().Add(30 * time.Second)
			for time.Now().Before(deadline) {
				for drained := false; !drained; {
					select {
					case e := <-sub.Out():
						got[string(e.(*protocoltypes.GroupMessageEvent).Message)] = true
					default:
						drained = true
					}
				}
				parked, _ := gcR.MessageStore().CacheSizeForDevicePK(sdev)
				if len(got)+parked >= len(want) {
					return
				}
				time.Sleep(2 * time.Millisecond)
			}
		}
		for _, step := range order {
			switch step {
			case "K":
				w.deliver(gcR.MetadataStore(), logHashes(gcS.MetadataStore()))
			case "M1":
				w.deliver(gcR.MessageStore(), sHashes[:1])
				want["message-1"] = true
				settle()
			case "M2":
				w.deliver(gcR.MessageStore(), sHashes[1:2])
				want["message-2"] = true
				settle()
			case "A":
				vmust(gcR.ActivateGroupContext(nil))
			case "reopen":
				sub.Close()
				gcR = dR.reopen(gcR)
				sub, err = gcR.MessageStore().EventBus().Subscribe(new(*protocoltypes.GroupMessageEvent))
				vmust(err)
				vmust(gcR.ActivateGroupContext(nil))
			}
		}
		deadline := time.After(45 * time.Second)
	wait:
		for len(got) < len(want) {
			select {
			case e := <-sub.Out():
				ev := e.(*protocoltypes.GroupMessageEvent)
				got[string(ev.Message)] = true
			case <-deadline:
				break wait
			}
		}
		sub.Close()
		parked, _ := gcR.MessageStore().CacheSizeForDevicePK(sdev)
		rep.Eval(fmt.Sprintf("history/%d-steps/all-delivered=%v", len(order), len(got) == len(want)))
		rep.AddTransitions(int64(len(order)))
		rep.AddStates(1)
		if len(got) != len(want) {
			rep.Violation("C08/message-stays-parked-after-history", fmt.Sprintf("order %v (K = the sender's announcement reaches the metadata log, Mi = message i reaches the message log, A = activation): delivered %v of %v within 45s, %d message(s) still in the sender's device cache", order, keysOf(got), keysOf(want), parked), map[string]interface{}{"order": order})
		}
		_ = gcR.Close()
		_ = gcS.Close()
	}
	rep.Sample(map[string]interface{}{"part": "orders of announcement / messages / activation on real stores", "orders": len(orders)})
}

func keysOf(m map[string]bool) []string {
	var out []string
	for k := range m {
		out = append(out, k)
	}
	return out
}
