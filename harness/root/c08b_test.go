//go:build verif

package weshnet

import (
	"fmt"

	"berty.tech/go-orbit-db/stores/operation"
	"testing"
	"time"

	"berty.tech/weshnet/v2/internal/zzverif/vrep"
	"berty.tech/weshnet/v2/pkg/protocoltypes"
)

// C08, history part (real stores, no scheduler): the three things that have to meet for a message to be delivered -
// the sender's chain-key announcement reaching the receiver's metadata log (K), the message reaching its message log
// (M, one or two messages), and the receiver's group context being activated (A) - in every order. Whatever the
// order, every message ends up delivered to subscribers and nothing stays in the per-device cache.
func TestVerifC08b(t *testing.T) {
	rep := vrep.New("C08")
	defer func() {
		if err := rep.Finish(); err != nil {
			t.Fatal(err)
		}
		if rep.NViolations() > 0 {
			t.Fail()
		}
	}()
	w := newVWorld(t, vrep.Seed())
	defer w.close()
	orders := [][]string{}
	var perm func(cur, rest []string)
	perm = func(cur, rest []string) {
		if len(rest) == 0 {
			orders = append(orders, append([]string{}, cur...))
			return
		}
		for i := range rest {
			nr := append(append([]string{}, rest[:i]...), rest[i+1:]...)
			perm(append(cur, rest[i]), nr)
		}
	}
	perm(nil, []string{"K", "M1", "A"})
	perm(nil, []string{"K", "M1", "M2", "A"})
	for oi, order := range orders {
		// M2 before M1 is not a causal arrival order for a log: skip those
		i1, i2 := -1, -1
		for i, s := range order {
			if s == "M1" {
				i1 = i
			}
			if s == "M2" {
				i2 = i
			}
		}
		if i2 >= 0 && i2 < i1 {
			continue
		}
		g := vDetGroup(w.seed, fmt.Sprintf("c08b-%d", oi))
		dS, dR := w.newDevice("S", fmt.Sprintf("h%d", oi)), w.newDevice("R", fmt.Sprintf("h%d", oi))
		gcS, gcR := dS.open(g), dR.open(g)
		_, err := gcS.MetadataStore().AddDeviceToGroup(w.ctx)
		vmust(err)
		_, err = gcR.MetadataStore().AddDeviceToGroup(w.ctx)
		vmust(err)
		w.deliver(gcS.MetadataStore(), logHashes(gcR.MetadataStore()))
		_, err = gcS.MetadataStore().SendSecret(w.ctx, gcR.MemberPubKey())
		vmust(err)
		var msgHashes [][]byte
		_ = msgHashes
		for i := 1; i <= 2; i++ {
			_, err = gcS.MessageStore().AddMessage(w.ctx, []byte(fmt.Sprintf("message-%d", i)))
			vmust(err)
		}
		sHashes := logHashes(gcS.MessageStore())
		sub, err := gcR.MessageStore().EventBus().Subscribe(new(*protocoltypes.GroupMessageEvent))
		vmust(err)
		want := map[string]bool{}
		got := map[string]bool{}
		sdev, _ := gcS.DevicePubKey().Raw()
		// settle: the message loop has looked at every message handed over so far (it is either delivered or parked)
		settle := func() {
			deadline := time.Now().Add(30 * time.Second)
			for time.Now().Before(deadline) {
				for drained := false; !drained; {
					select {
					case e := <-sub.Out():
						got[string(e.(*protocoltypes.GroupMessageEvent).Message)] = true
					default:
						drained = true
					}
				}
				parked, _ := gcR.MessageStore().CacheSizeForDevicePK(sdev)
				if len(got)+parked >= len(want) {
					return
				}
				time.Sleep(2 * time.Millisecond)
			}
		}
		for _, step := range order {
			switch step {
			case "K":
				w.deliver(gcR.MetadataStore(), logHashes(gcS.MetadataStore()))
			case "M1":
				w.deliver(gcR.MessageStore(), sHashes[:1])
				want["message-1"] = true
				settle()
			case "M2":
				w.deliver(gcR.MessageStore(), sHashes[1:2])
				want["message-2"] = true
				settle()
			case "A":
				vmust(gcR.ActivateGroupContext(nil))
			case "reopen":
				sub.Close()
				gcR = dR.reopen(gcR)
				sub, err = gcR.MessageStore().EventBus().Subscribe(new(*protocoltypes.GroupMessageEvent))
				vmust(err)
				vmust(gcR.ActivateGroupContext(nil))
			}
		}
		deadline := time.After(45 * time.Second)
	wait:
		for len(got) < len(want) {
			select {
			case e := <-sub.Out():
				ev := e.(*protocoltypes.GroupMessageEvent)
				got[string(ev.Message)] = true
			case <-deadline:
				break wait
			}
		}
		sub.Close()
		parked, _ := gcR.MessageStore().CacheSizeForDevicePK(sdev)
		rep.Eval(fmt.Sprintf("history/%d-steps/all-delivered=%v", len(order), len(got) == len(want)))
		rep.AddTransitions(int64(len(order)))
		rep.AddStates(1)
		if len(got) != len(want) {
			rep.Violation("C08/message-stays-parked-after-history", fmt.Sprintf("order %v (K = the sender's announcement reaches the metadata log, Mi = message i reaches the message log, A = activation): delivered %v of %v within 45s, %d message(s) still in the sender's device cache", order, keysOf(got), keysOf(want), parked), map[string]interface{}{"order": order})
		}
		_ = gcR.Close()
		_ = gcS.Close()
	}
	rep.Sample(map[string]interface{}{"part": "orders of announcement / messages / activation on real stores", "orders": len(orders)})
	c08bBatchWithUnreadableEntry(rep, w)
	c08bOwnCounters(rep, w)
}

// c08bBatchWithUnreadableEntry: one replication batch that contains an entry which is no message envelope (anyone with
// write access to the log can append one) between genuine messages: the genuine ones around it are delivered.
func c08bBatchWithUnreadableEntry(rep *vrep.Report, w *vWorld) {
	for _, pos := range []int{0, 1, 2} {
		g := vDetGroup(w.seed, fmt.Sprintf("c08b-batch-%d", pos))
		dS, dR := w.newDevice("S", fmt.Sprintf("u%d", pos)), w.newDevice("R", fmt.Sprintf("u%d", pos))
		gcS, gcR := dS.open(g), dR.open(g)
		_, err := gcS.MetadataStore().AddDeviceToGroup(w.ctx)
		vmust(err)
		_, err = gcR.MetadataStore().AddDeviceToGroup(w.ctx)
		vmust(err)
		w.deliver(gcS.MetadataStore(), logHashes(gcR.MetadataStore()))
		_, err = gcS.MetadataStore().SendSecret(w.ctx, gcR.MemberPubKey())
		vmust(err)
		want := map[string]bool{}
		for i := 0; i < 3; i++ {
			if i == pos {
				_, err = gcS.MessageStore().AddOperation(w.ctx, operation.NewOperation(nil, "ADD", []byte("not a message envelope")), nil)
				vmust(err)
			}
			body := fmt.Sprintf("batch-message-%d", i)
			_, err = gcS.MessageStore().AddMessage(w.ctx, []byte(body))
			vmust(err)
			want[body] = true
		}
		sub, err := gcR.MessageStore().EventBus().Subscribe(new(*protocoltypes.GroupMessageEvent))
		vmust(err)
		w.deliver(gcR.MetadataStore(), logHashes(gcS.MetadataStore()))
		vmust(gcR.ActivateGroupContext(nil))
		// the whole message log in one batch, oldest first
		w.deliver(gcR.MessageStore(), logHashes(gcS.MessageStore()))
		got := map[string]bool{}
		deadline := time.After(45 * time.Second)
	wait:
		for len(got) < len(want) {
			select {
			case e := <-sub.Out():
				got[string(e.(*protocoltypes.GroupMessageEvent).Message)] = true
			case <-deadline:
				break wait
			}
		}
		sub.Close()
		rep.Eval(fmt.Sprintf("batch-with-unreadable-entry/position=%d/all-delivered=%v", pos, len(got) == len(want)))
		rep.AddTransitions(1)
		if len(got) != len(want) {
			rep.Violation("C08/messages-after-unreadable-entry-not-delivered", fmt.Sprintf("a replication batch of 3 messages with an entry that is no message envelope before message %d: delivered %v of %v within 45s", pos, keysOf(got), keysOf(want)), map[string]interface{}{"position": pos})
		}
		_ = gcR.Close()
		_ = gcS.Close()
	}
}

// c08bOwnCounters: a device sends through its message store (the way the service does), and its own message loop
// handles each of its entries before the next send: the envelopes in its log carry the counters 1, 2, 3, ...
func c08bOwnCounters(rep *vrep.Report, w *vWorld) {
	g := vDetGroup(w.seed, "c08b-own")
	dS := w.newDevice("S", "own")
	gcS := dS.open(g)
	_, err := gcS.MetadataStore().AddDeviceToGroup(w.ctx)
	vmust(err)
	vmust(gcS.ActivateGroupContext(nil))
	sub, err := gcS.MessageStore().EventBus().Subscribe(new(*protocoltypes.GroupMessageEvent))
	vmust(err)
	defer sub.Close()
	const n = 4
	for i := 0; i < n; i++ {
		_, err := gcS.MessageStore().AddMessage(w.ctx, []byte(fmt.Sprintf("own-%d", i)))
		vmust(err)
		select {
		case <-sub.Out():
		case <-time.After(45 * time.Second):
			rep.Violation("C08/own-message-not-delivered", fmt.Sprintf("the device's own message %d is not handed to its subscribers within 45s", i), nil)
			return
		}
	}
	var ctrs []uint64
	for _, e := range gcS.MessageStore().OpLog().Values().Slice() {
		op, err := operation.ParseOperation(e)
		vmust(err)
		_, h, err := dS.ss.OpenEnvelopeHeaders(op.GetValue(), g)
		vmust(err)
		ctrs = append(ctrs, h.Counter)
	}
	ok := len(ctrs) == n
	for i, c := range ctrs {
		if c != uint64(i+1) {
			ok = false
		}
	}
	rep.Eval(fmt.Sprintf("own-messages/counters-consecutive=%v", ok))
	rep.AddTransitions(n)
	if !ok {
		rep.Violation("C08/own-messages-consume-counters", fmt.Sprintf("a device sends %d messages through its message store, handling each of its own entries before the next send: the envelopes carry counters %v instead of 1..%d (handling an own entry moved the sending chain; receivers lose the sender once the gaps exceed their key window)", n, ctrs, n), nil)
	}
	_ = gcS.Close()
}

func keysOf(m map[string]bool) []string {
	var out []string
	for k := range m {
		out = append(out, k)
	}
	return out
}
