//go:build verif

package weshnet

import (
	"context"
	"fmt"
	"sort"
	"strings"
	"sync"
	"testing"
	"time"

	"github.com/ipfs/go-cid"
	"github.com/libp2p/go-libp2p/core/crypto"
	"google.golang.org/protobuf/proto"

	"berty.tech/weshnet/v2/internal/zzverif/vrep"
	"berty.tech/weshnet/v2/pkg/protocoltypes"
)

// C05 (b): once every member is active and all metadata entries have been exchanged, every device holds the chain
// key of every other announced device. The reactive part of ActivateGroupContext is driven by the explorer:
// activation steps, handling of the group-metadata events a replica has received, and deliveries between replicas
// are the transitions; handlers are atomic steps.

type c05Dev struct {
	name      string // "A1"
	acct      string
	d         *vDevice
	gc        *GroupContext
	activated bool
	sub       interface{ Out() <-chan interface{} }
	subClose  func()
	pending   []*protocoltypes.GroupMetadataEvent
	fill, send, add bool
}

type c05Op struct {
	Kind string `json:"op"` // activate | fill | send | add | handle | handle-one | sync
	Dev  int    `json:"dev"`
	From int    `json:"from,omitempty"`
	Rev  bool   `json:"newest_first,omitempty"`
}

func (o c05Op) String() string {
	if o.Kind == "settle" {
		return "settle"
	}
	if o.Kind == "sync" {
		ord := "oldest-first"
		if o.Rev {
			ord = "newest-first"
		}
		return fmt.Sprintf("sync(%d->%d,%s)", o.From, o.Dev, ord)
	}
	return fmt.Sprintf("%s(%d)", o.Kind, o.Dev)
}

type c05Scenario struct {
	Name    string
	Devices []string // "A1","B1",...
	Contact bool     // contact group between A and B instead of a multi-member group
	Fine    bool     // activation split into its three steps, events handled one at a time
	BothOrders bool  // deliveries oldest-first as well as newest-first (always for two devices)
	Cap     int
}

type c05World struct {
	w    *vWorld
	sc   c05Scenario
	g    *protocoltypes.Group
	devs []*c05Dev
}

var c05Counter int64
var c05Mu sync.Mutex

func c05Build(w *vWorld, sc c05Scenario) *c05World {
	c05Mu.Lock()
	c05Counter++
	id := c05Counter
	c05Mu.Unlock()
	cw := &c05World{w: w, sc: sc}
	for _, n := range sc.Devices {
		cw.devs = append(cw.devs, &c05Dev{name: n, acct: n[:1], d: w.newDevice(n[:1], fmt.Sprintf("%s-%d", n[1:], id))})
	}
	if sc.Contact {
		var other *c05Dev
		for _, d := range cw.devs {
			if d.acct != cw.devs[0].acct {
				other = d
			}
		}
		sk, err := other.d.ss.GetAccountPrivateKey()
		vmust(err)
		g, err := cw.devs[0].d.ss.GetGroupForContact(sk.GetPublic())
		vmust(err)
		cw.g = g
	} else {
		cw.g = vDetGroup(w.seed, fmt.Sprintf("c05-%d", id))
	}
	for _, d := range cw.devs {
		d.gc = d.d.open(cw.g)
		sub, err := d.gc.MetadataStore().EventBus().Subscribe(new(*protocoltypes.GroupMetadataEvent))
		vmust(err)
		d.sub = sub
		d.subClose = func() { sub.Close() }
	}
	return cw
}

func (cw *c05World) close() {
	for _, d := range cw.devs {
		d.subClose()
		_ = d.gc.Close()
		_ = d.d.odb.Close()
	}
}

// collect waits for n group-metadata events emitted by d's store (outcome deterministic: the number is known).
func (cw *c05World) collect(d *c05Dev, n int) {
	for i := 0; i < n; i++ {
		select {
		case e := <-d.sub.Out():
			if d.activated {
				d.pending = append(d.pending, e.(*protocoltypes.GroupMetadataEvent))
			}
		case <-time.After(60 * time.Second):
			panic("HARNESS: expected group metadata event not emitted within 60s")
		}
	}
}

// run executes f (which appends to d's log) and collects the events of the new entries.
func (cw *c05World) run(d *c05Dev, f func()) {
	before := d.gc.MetadataStore().OpLog().Len()
	f()
	cw.collect(d, d.gc.MetadataStore().OpLog().Len()-before)
}

func (cw *c05World) contactPK(d *c05Dev) crypto.PubKey {
	if !cw.sc.Contact {
		return nil
	}
	for _, o := range cw.devs {
		if o.acct != d.acct {
			sk, err := o.d.ss.GetAccountPrivateKey()
			vmust(err)
			return sk.GetPublic()
		}
	}
	return nil
}

func (cw *c05World) enabled() []c05Op {
	var ops []c05Op
	for i, d := range cw.devs {
		if !cw.sc.Fine {
			if !d.activated {
				ops = append(ops, c05Op{Kind: "activate", Dev: i})
			}
			if len(d.pending) > 0 {
				ops = append(ops, c05Op{Kind: "handle", Dev: i})
			}
		} else {
			if !d.fill {
				ops = append(ops, c05Op{Kind: "fill", Dev: i})
			}
			if !d.send {
				ops = append(ops, c05Op{Kind: "send", Dev: i})
			}
			if d.fill && d.send && !d.add {
				ops = append(ops, c05Op{Kind: "add", Dev: i})
			}
			if len(d.pending) > 0 {
				ops = append(ops, c05Op{Kind: "handle-one", Dev: i})
			}
		}
		have := map[string]bool{}
		for _, h := range logHashes(d.gc.MetadataStore()) {
			have[h.String()] = true
		}
		for j, o := range cw.devs {
			if i == j {
				continue
			}
			missing := 0
			for _, h := range logHashes(o.gc.MetadataStore()) {
				if !have[h.String()] {
					missing++
				}
			}
			if missing > 0 {
				ops = append(ops, c05Op{Kind: "sync", Dev: i, From: j, Rev: true})
				if missing > 1 && (cw.sc.BothOrders || len(cw.devs) <= 2) {
					ops = append(ops, c05Op{Kind: "sync", Dev: i, From: j, Rev: false})
				}
			}
		}
	}
	if len(ops) > 0 {
		ops = append(ops, c05Op{Kind: "settle"})
	}
	return ops
}

// settle: every replica repeatedly receives what it lacks and handles what is pending, until nothing changes
// (deterministic order). From any state this reaches the quiescent state of the devices activated so far.
func (cw *c05World) settle() {
	for round := 0; round < 50; round++ {
		changed := false
		for i, d := range cw.devs {
			for j := range cw.devs {
				if i == j {
					continue
				}
				have := map[string]bool{}
				for _, h := range logHashes(d.gc.MetadataStore()) {
					have[h.String()] = true
				}
				for _, h := range logHashes(cw.devs[j].gc.MetadataStore()) {
					if !have[h.String()] {
						cw.apply(c05Op{Kind: "sync", Dev: i, From: j, Rev: true})
						changed = true
						break
					}
				}
			}
			if len(d.pending) > 0 {
				cw.apply(c05Op{Kind: "handle", Dev: i})
				changed = true
			}
		}
		if !changed {
			return
		}
	}
	panic("HARNESS: replicas do not settle within 50 rounds")
}

func (cw *c05World) apply(op c05Op) {
	if op.Kind == "settle" {
		cw.settle()
		return
	}
	d := cw.devs[op.Dev]
	ctx := cw.w.ctx
	switch op.Kind {
	case "activate":
		d.activated = true // the event subscription of ActivateGroupContext exists from here on
		cw.run(d, func() { d.gc.fillMessageKeysHolderUsingPreviousData() })
		cw.run(d, func() { d.gc.sendSecretsToExistingMembers(cw.contactPK(d)) })
		cw.run(d, func() { _, err := d.gc.MetadataStore().AddDeviceToGroup(ctx); vmust(err) })
		d.fill, d.send, d.add = true, true, true
	case "fill":
		d.activated = true
		cw.run(d, func() { d.gc.fillMessageKeysHolderUsingPreviousData() })
		d.fill = true
	case "send":
		d.activated = true
		cw.run(d, func() { d.gc.sendSecretsToExistingMembers(cw.contactPK(d)) })
		d.send = true
	case "add":
		cw.run(d, func() { _, err := d.gc.MetadataStore().AddDeviceToGroup(ctx); vmust(err) })
		d.add = true
	case "handle":
		for len(d.pending) > 0 {
			e := d.pending[0]
			d.pending = d.pending[1:]
			cw.run(d, func() { _ = d.gc.handleGroupMetadataEvent(e) })
		}
	case "handle-one":
		e := d.pending[0]
		d.pending = d.pending[1:]
		cw.run(d, func() { _ = d.gc.handleGroupMetadataEvent(e) })
	case "sync":
		from := cw.devs[op.From]
		have := map[string]bool{}
		for _, h := range logHashes(d.gc.MetadataStore()) {
			have[h.String()] = true
		}
		var missing []cid.Cid
		for _, h := range logHashes(from.gc.MetadataStore()) {
			if !have[h.String()] {
				missing = append(missing, h)
			}
		}
		if op.Rev {
			missing = reverseCids(missing)
		}
		cw.w.deliver(d.gc.MetadataStore(), missing)
		cw.collect(d, len(missing))
	}
}

// descriptor of an entry that does not depend on random material
func (cw *c05World) describe(ev *protocoltypes.GroupMetadataEvent) string {
	name := func(pk []byte) string {
		for _, d := range cw.devs {
			db, _ := d.gc.DevicePubKey().Raw()
			mb, _ := d.gc.MemberPubKey().Raw()
			if string(pk) == string(db) {
				return "dev:" + d.name
			}
			if string(pk) == string(mb) {
				return "mem:" + d.acct
			}
		}
		return "?"
	}
	switch ev.Metadata.EventType {
	case protocoltypes.EventType_EventTypeGroupMemberDeviceAdded:
		e := &protocoltypes.GroupMemberDeviceAdded{}
		_ = proto.Unmarshal(ev.Event, e)
		return "added(" + name(e.DevicePk) + ")"
	case protocoltypes.EventType_EventTypeGroupDeviceChainKeyAdded:
		e := &protocoltypes.GroupDeviceChainKeyAdded{}
		_ = proto.Unmarshal(ev.Event, e)
		return "key(" + name(e.DevicePk) + "->" + name(e.DestMemberPk) + ")"
	}
	return ev.Metadata.EventType.String()
}

func (cw *c05World) canon() string {
	var sb strings.Builder
	gpk, _ := cw.g.GetPubKey()
	for _, d := range cw.devs {
		var ents []string
		for _, e := range d.gc.MetadataStore().OpLog().Values().Slice() {
			ev, _, err := vOpenMetadataEntry(d.gc.MetadataStore().OpLog(), e, cw.g)
			vmust(err)
			ents = append(ents, cw.describe(ev))
		}
		sort.Strings(ents)
		var pend []string
		for _, e := range d.pending {
			pend = append(pend, cw.describe(e))
		}
		var keys []string
		for _, o := range cw.devs {
			if d.d.ss.IsChainKeyKnownForDevice(context.Background(), gpk, o.gc.DevicePubKey()) {
				keys = append(keys, o.name)
			}
		}
		fmt.Fprintf(&sb, "%s act=%v%v%v%v ents=%v pend=%v keys=%v | ", d.name, d.activated, d.fill, d.send, d.add, ents, pend, keys)
	}
	return sb.String()
}

// quiescent: everybody active, nothing pending, same entries everywhere.
func (cw *c05World) quiescent() bool {
	var ref string
	for i, d := range cw.devs {
		if !(d.fill && d.send && d.add) || len(d.pending) > 0 {
			return false
		}
		hs := logHashes(d.gc.MetadataStore())
		var ss []string
		for _, h := range hs {
			ss = append(ss, h.String())
		}
		sort.Strings(ss)
		s := strings.Join(ss, ",")
		if i == 0 {
			ref = s
		} else if s != ref {
			return false
		}
	}
	return true
}

type c05Case struct {
	Scenario string  `json:"scenario"`
	History  []c05Op `json:"history"`
}

func c05Explore(rep *vrep.Report, t *testing.T, sc c05Scenario, maxStates int) {
	type node struct{ hist []c05Op }
	seen := map[string]bool{}
	frontier := []node{{}}
	var mu sync.Mutex
	var states, transitions, quiescentStates, quiescentVisits int64
	reported := map[string]bool{}
	seenQ := map[string]bool{}
	replay := func(w *vWorld, hist []c05Op) *c05World {
		cw := c05Build(w, sc)
		for _, op := range hist {
			cw.apply(op)
		}
		return cw
	}
	maxDepth := 0
	capped := false
	for len(frontier) > 0 && !capped {
		var next []node
		var wg sync.WaitGroup
		workers := 12
		jobs := make(chan node, len(frontier))
		for _, n := range frontier {
			jobs <- n
		}
		close(jobs)
		for wi := 0; wi < workers; wi++ {
			wg.Add(1)
			go func() {
				defer wg.Done()
				w := newVWorld(t, vrep.Seed())
				defer w.close()
				count := 0
				for n := range jobs {
					count++
					if count%40 == 0 {
						w.close()
						w = newVWorld(t, vrep.Seed())
					}
					cw := replay(w, n.hist)
					ops := cw.enabled()
					key := cw.canon()
					q := cw.quiescent()
					if q {
						c05Oracle(rep, cw, sc, n.hist, reported, &mu)
						mu.Lock()
						quiescentVisits++
						mu.Unlock()
					}
					cw.close()
					mu.Lock()
					if q && !seenQ[key] {
						seenQ[key] = true
						quiescentStates++
					}
					mu.Unlock()
					for _, op := range ops {
						c2 := replay(w, append(append([]c05Op{}, n.hist...), op))
						k2 := c2.canon()
						c2.close()
						mu.Lock()
						transitions++
						if !seen[k2] {
							seen[k2] = true
							states++
							next = append(next, node{append(append([]c05Op{}, n.hist...), op)})
						}
						mu.Unlock()
					}
				}
			}()
		}
		wg.Wait()
		if len(next) > 0 {
			maxDepth++
		}
		if sc.Cap > 0 {
			maxStates = sc.Cap
		}
		if int(states) > maxStates {
			capped = true
		}
		frontier = next
	}
	rep.AddStates(states)
	rep.AddTransitions(transitions)
	rep.AddTraces(transitions)
	if capped {
		rep.NotExhaustive(fmt.Sprintf("scenario %s: stopped after %d states (cap %d), frontier depth %d", sc.Name, states, maxStates, maxDepth))
	}
	rep.Eval(fmt.Sprintf("completeness/%s/quiescent-states=%d", sc.Name, quiescentStates))
	rep.Sample(map[string]interface{}{"part": "completeness", "scenario": sc.Name, "states": states, "transitions": transitions, "quiescent_states": quiescentStates, "histories_reaching_quiescence": quiescentVisits, "depth": maxDepth, "complete": !capped})
}

func c05Oracle(rep *vrep.Report, cw *c05World, sc c05Scenario, hist []c05Op, reported map[string]bool, mu *sync.Mutex) {
	gpk, _ := cw.g.GetPubKey()
	ctx := context.Background()
	for _, from := range cw.devs {
		for _, to := range cw.devs {
			if from == to {
				continue
			}
			known := to.d.ss.IsChainKeyKnownForDevice(ctx, gpk, from.gc.DevicePubKey())
			rep.Eval(fmt.Sprintf("completeness/%s/%s-knows-%s=%v", sc.Name, to.name, from.name, known))
			desc := ""
			if !known {
				desc = fmt.Sprintf("all devices are active, nothing is pending, all replicas hold the same entries, and %s does not hold the chain key of %s", to.name, from.name)
			} else {
				msg, _ := proto.Marshal(&protocoltypes.EncryptedMessage{Plaintext: []byte("probe"), ProtocolMetadata: &protocoltypes.ProtocolMetadata{}})
				env, err := from.d.ss.SealEnvelope(ctx, cw.g, msg)
				vmust(err)
				e, h, err := to.d.ss.OpenEnvelopeHeaders(env, cw.g)
				if err == nil {
					_, err = to.d.ss.OpenEnvelopePayload(ctx, e, h, gpk, to.gc.DevicePubKey(), cidOfBytes(env))
				}
				if err != nil {
					desc = fmt.Sprintf("%s holds a chain key of %s but cannot open its next message: %v", to.name, from.name, err)
				}
			}
			if desc != "" {
				mu.Lock()
				sig := "C05/device-lacks-chain-key"
				if !reported[sig+sc.Name] {
					reported[sig+sc.Name] = true
					rep.Violation(sig, fmt.Sprintf("scenario %s, history %v: %s", sc.Name, hist, desc), c05Case{sc.Name, hist})
				}
				mu.Unlock()
			}
		}
	}
}

func TestVerifC05(t *testing.T) {
	rep := vrep.New("C05")
	defer func() {
		if err := rep.Finish(); err != nil {
			t.Fatal(err)
		}
		if rep.NViolations() > 0 {
			t.Fail()
		}
	}()
	scs := []c05Scenario{
		{Name: "2 members x 1 device", Devices: []string{"A1", "B1"}},
		{Name: "2 members x (2,1) devices", Devices: []string{"A1", "A2", "B1"}, Cap: 1500},
		{Name: "contact group, 1 device each", Devices: []string{"A1", "B1"}, Contact: true},
	}
	cap := 400
	if vrep.Thorough() {
		cap = 4000
		scs = append(scs,
			c05Scenario{Name: "3 members x 1 device", Devices: []string{"A1", "B1", "C1"}},
			c05Scenario{Name: "2 members x (2,1) devices, both delivery orders", Devices: []string{"A1", "A2", "B1"}, BothOrders: true},
			c05Scenario{Name: "2 members x 1 device, fine steps", Devices: []string{"A1", "B1"}, Fine: true},
			c05Scenario{Name: "contact group, (2,1) devices", Devices: []string{"A1", "A2", "B1"}, Contact: true},
		)
	}
	for _, sc := range scs {
		c05Explore(rep, t, sc, cap)
	}
}
