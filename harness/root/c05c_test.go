//go:build verif

package weshnet

import (
	"context"
	"fmt"
	"sync"
	"sync/atomic"
	"testing"
	"time"

	"github.com/libp2p/go-libp2p/core/crypto"

	"berty.tech/weshnet/v2/internal/zzverif/vrep"
	"berty.tech/weshnet/v2/pkg/protocoltypes"
	"berty.tech/weshnet/v2/pkg/secretstore"
)

// C05 (c): a member whose device entry arrives WHILE another device runs the real ActivateGroupContext must still get
// that device's chain-key announcement. The arrival point is enumerated over every secret-store call the activation
// makes (plus "before" and "after"); whether the activation's event loop has caught up is decided by a later entry
// whose handling is observable (no timeout decides anything).

// countingStore wraps the secret store of the activating device: at its k-th call it runs inject once.
type countingStore struct {
	secretstore.SecretStore
	calls  *int64
	at     int64
	inject func()
	once   *sync.Once
}

func (c *countingStore) tick() {
	if n := atomic.AddInt64(c.calls, 1); n == c.at && c.inject != nil {
		c.once.Do(c.inject)
	}
}

func (c *countingStore) GetShareableChainKey(ctx context.Context, g *protocoltypes.Group, pk crypto.PubKey) ([]byte, error) {
	c.tick()
	return c.SecretStore.GetShareableChainKey(ctx, g, pk)
}

func (c *countingStore) RegisterChainKey(ctx context.Context, g *protocoltypes.Group, pk crypto.PubKey, b []byte) error {
	c.tick()
	return c.SecretStore.RegisterChainKey(ctx, g, pk, b)
}

func (c *countingStore) IsChainKeyKnownForDevice(ctx context.Context, gpk crypto.PubKey, dpk crypto.PubKey) bool {
	c.tick()
	return c.SecretStore.IsChainKeyKnownForDevice(ctx, gpk, dpk)
}

func (c *countingStore) GetOwnMemberDeviceForGroup(g *protocoltypes.Group) (secretstore.OwnMemberDevice, error) {
	c.tick()
	return c.SecretStore.GetOwnMemberDeviceForGroup(g)
}

type c05cCase struct {
	InjectAtCall int64 `json:"inject_at_secret_store_call"`
}

// c05cRun: returns the number of secret-store calls the activation made and whether C got A's announcement.
func c05cRun(t *testing.T, w *vWorld, id int, injectAt int64, corrupt bool) (calls int64, sentToC bool, sentToB bool, sentToD bool) {
	g := vDetGroup(w.seed, fmt.Sprintf("c05c-%d", id))
	mk := func(acct string) (*vDevice, *GroupContext) {
		d := w.newDevice(acct, fmt.Sprintf("w%d", id))
		return d, d.open(g)
	}
	dA, gcA := mk("A")
	_, gcB := mk("B")
	_, gcC := mk("C")
	_, gcD := mk("D")
	_ = dA
	for _, gc := range []*GroupContext{gcB, gcC, gcD} {
		_, err := gc.MetadataStore().AddDeviceToGroup(w.ctx)
		vmust(err)
	}
	// B is an existing member: its device entry is in A's replica before A activates
	w.deliver(gcA.MetadataStore(), logHashes(gcB.MetadataStore()))
	// own subscription, to know when an injected entry's event has been emitted
	sub, err := gcA.MetadataStore().EventBus().Subscribe(new(*protocoltypes.GroupMetadataEvent))
	vmust(err)
	defer sub.Close()
	cDev, _ := gcC.DevicePubKey().Raw()
	waitEvent := func(dev []byte) {
		deadline := time.After(60 * time.Second)
		for {
			select {
			case e := <-sub.Out():
				ev := e.(*protocoltypes.GroupMetadataEvent)
				if ev.Metadata.EventType == protocoltypes.EventType_EventTypeGroupMemberDeviceAdded {
					a := &protocoltypes.GroupMemberDeviceAdded{}
					if protoUnmarshal(ev.Event, a) == nil && string(a.DevicePk) == string(dev) {
						return
					}
				}
			case <-deadline:
				panic("HARNESS: the event of a delivered entry was not emitted within 60s")
			}
		}
	}
	inject := func() {
		w.deliver(gcA.MetadataStore(), logHashes(gcC.MetadataStore()))
		waitEvent(cDev)
	}
	var n int64
	once := &sync.Once{}
	cs := &countingStore{SecretStore: gcA.secretStore, calls: &n, at: injectAt, inject: inject, once: once}
	gcA.secretStore = cs
	gcA.metadataStore.secretStore = cs
	if injectAt == 0 {
		once.Do(inject) // before the activation starts
	}
	vmust(gcA.ActivateGroupContext(nil))
	calls = atomic.LoadInt64(&n)
	// after the activation has returned (also when it made fewer secret-store calls than injectAt this time: the
	// number of calls varies by one with the timing of the event loop)
	once.Do(inject)
	if corrupt {
		// an announcement addressed to A whose ciphertext is garbage (properly signed by B's device): A's handler
		// refuses it, and must go on handling what comes next
		_, err := MetadataStoreSendSecret(w.ctx, gcB.MetadataStore(), g, gcB.ownMemberDevice, gcA.MemberPubKey(), []byte("not a sealed chain key"))
		vmust(err)
		before := logHashes(gcA.MetadataStore())
		w.deliver(gcA.MetadataStore(), logHashes(gcB.MetadataStore()))
		if len(logHashes(gcA.MetadataStore())) == len(before) {
			panic("HARNESS: the corrupt announcement did not reach A's replica")
		}
	}
	// sentinel: D's device entry arrives now (certainly after the subscription exists); once A has answered it, A's
	// event loop has handled everything that was emitted before it
	w.deliver(gcA.MetadataStore(), logHashes(gcD.MetadataStore()))
	idx := gcA.MetadataStore().Index().(*metadataStoreIndex)
	deadline := time.Now().Add(60 * time.Second)
	for {
		if ok, _ := idx.areSecretsAlreadySent(gcD.MemberPubKey()); ok {
			break
		}
		if time.Now().After(deadline) {
			// the activated context never answers a member that joined after activation: reported by the caller
			for _, gc := range []*GroupContext{gcA, gcB, gcC, gcD} {
				_ = gc.Close()
			}
			return calls, false, false, false
		}
		time.Sleep(2 * time.Millisecond)
	}
	sentToC, _ = idx.areSecretsAlreadySent(gcC.MemberPubKey())
	sentToB, _ = idx.areSecretsAlreadySent(gcB.MemberPubKey())
	sentToD = true
	for _, gc := range []*GroupContext{gcA, gcB, gcC, gcD} {
		_ = gc.Close()
	}
	return
}

// c05cCatchup: B's device entry and two announcements of B addressed to A - one whose ciphertext does not open, one
// genuine, in the given order - are in A's replica either before A activates (the catch-up pass registers what the
// log holds) or arrive after the activation (the live handler). A must hold B's chain key in the end.
func c05cCatchup(w *vWorld, id int, alteredFirst bool, live bool) bool {
	g := vDetGroup(w.seed, fmt.Sprintf("c05cu-%d", id))
	dA, dB := w.newDevice("A", fmt.Sprintf("u%d", id)), w.newDevice("B", fmt.Sprintf("u%d", id))
	gcA, gcB := dA.open(g), dB.open(g)
	defer func() { _ = gcA.Close(); _ = gcB.Close() }()
	_, err := gcB.MetadataStore().AddDeviceToGroup(w.ctx)
	vmust(err)
	genuine, err := gcB.secretStore.GetShareableChainKey(w.ctx, g, gcA.MemberPubKey())
	vmust(err)
	altered := append([]byte(nil), genuine...)
	altered[len(altered)/2] ^= 0x40
	payloads := [][]byte{genuine, altered}
	if alteredFirst {
		payloads = [][]byte{altered, genuine}
	}
	for _, p := range payloads {
		_, err := MetadataStoreSendSecret(w.ctx, gcB.MetadataStore(), g, gcB.ownMemberDevice, gcA.MemberPubKey(), p)
		vmust(err)
	}
	if !live {
		// the store emits the events of delivered entries asynchronously; the catch-up pass alone is exercised only
		// when they have all been emitted before the activation subscribes
		sub, err := gcA.MetadataStore().EventBus().Subscribe(new(*protocoltypes.GroupMetadataEvent))
		vmust(err)
		hs := logHashes(gcB.MetadataStore())
		w.deliver(gcA.MetadataStore(), hs)
		timeout := time.After(60 * time.Second)
		for n := 0; n < len(hs); n++ {
			select {
			case <-sub.Out():
			case <-timeout:
				panic("HARNESS: the events of delivered entries were not emitted within 60s")
			}
		}
		sub.Close()
	}
	vmust(gcA.ActivateGroupContext(nil))
	if live {
		w.deliver(gcA.MetadataStore(), logHashes(gcB.MetadataStore()))
	}
	gpk, _ := g.GetPubKey()
	deadline := time.Now().Add(30 * time.Second)
	for {
		if gcA.secretStore.IsChainKeyKnownForDevice(w.ctx, gpk, gcB.DevicePubKey()) {
			return true
		}
		if !live || time.Now().After(deadline) {
			// the catch-up pass is synchronous: what it did not register, nothing will
			return false
		}
		time.Sleep(2 * time.Millisecond)
	}
}

func TestVerifC05c(t *testing.T) {
	rep := vrep.New("C05")
	defer func() {
		if err := rep.Finish(); err != nil {
			t.Fatal(err)
		}
		if rep.NViolations() > 0 {
			t.Fail()
		}
	}()
	w := newVWorld(t, vrep.Seed())
	defer w.close()
	// dry run: how many secret-store calls does the activation make?
	calls, _, _, _ := c05cRun(t, w, 0, -1, false)
	rep.Set("secret_store_calls_during_activation", calls)
	id := 0
	points := []int64{0, -1}
	for k := int64(1); k <= calls+1; k++ {
		points = append(points, k)
	}
	for _, k := range points {
		id++
		_, toC, toB, toD := c05cRun(t, w, id, k, false)
		where := "during"
		if k == 0 {
			where = "before"
		} else if k < 0 {
			where = "after"
		}
		rep.Eval(fmt.Sprintf("activation-window/arrival-%s/announced-to-joining-member=%v/to-existing-member=%v", where, toC, toB))
		rep.AddTransitions(1)
		if !toD {
			rep.Violation("C05/member-joining-after-activation-gets-no-chain-key", fmt.Sprintf("member D's device entry arrives after A's activation returned (C's arrival point %d): A publishes no chain-key announcement for D within 60s", k), c05cCase{k})
			break
		}
		if !toC {
			rep.Violation("C05/member-joining-during-activation-gets-no-chain-key", fmt.Sprintf("member C's device entry arrives at secret-store call %d of %d of A's activation (0 = before, -1 = after): A never publishes a chain-key announcement for C although its event loop has handled a later entry", k, calls), c05cCase{k})
		}
		if !toB {
			rep.Violation("C05/existing-member-gets-no-chain-key", fmt.Sprintf("existing member B gets no announcement (arrival point %d)", k), c05cCase{k})
		}
	}
	// a refused announcement between two joins: the live handler survives it
	for _, k := range []int64{0, -1} {
		id++
		_, toC, toB, toD := c05cRun(t, w, id, k, true)
		rep.Eval(fmt.Sprintf("activation-window/refused-announcement-before-next-join/later-member-answered=%v", toD))
		rep.AddTransitions(1)
		if !toD {
			rep.Violation("C05/member-joining-after-refused-announcement-gets-no-chain-key", fmt.Sprintf("A handles an announcement addressed to it whose ciphertext is garbage (refused), then member D's device entry arrives: A publishes no chain-key announcement for D within 60s (C's arrival point %d)", k), c05cCase{k})
		} else if !toC || !toB {
			rep.Violation("C05/member-gets-no-chain-key", fmt.Sprintf("with a refused announcement in the log: announced to C=%v, to B=%v", toC, toB), c05cCase{k})
		}
	}
	// an announcement that does not open next to the genuine one of the same sender, in both orders, found by the
	// catch-up pass of the activation or handled live
	for _, alteredFirst := range []bool{true, false} {
		for _, live := range []bool{false, true} {
			id++
			known := c05cCatchup(w, id, alteredFirst, live)
			rep.Eval(fmt.Sprintf("altered-and-genuine-announcement/altered-first=%v/live=%v/chain-key-held=%v", alteredFirst, live, known))
			rep.AddTransitions(1)
			if !known {
				rep.Violation("C05/genuine-announcement-shadowed-by-an-altered-one", fmt.Sprintf("B's log holds an announcement for A that does not open and the genuine one (altered first: %v); A receives them %s: A does not hold B's chain key", alteredFirst, map[bool]string{false: "before its activation (catch-up pass)", true: "after its activation (live handler)"}[live]), map[string]interface{}{"altered_first": alteredFirst, "live": live})
			}
		}
	}
	rep.AddStates(int64(len(points)))
	rep.Sample(map[string]interface{}{"part": "arrival during activation", "arrival_points": len(points), "secret_store_calls": calls})
}
