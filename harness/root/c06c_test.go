//go:build verif

package weshnet

import (
	"context"
	"fmt"
	"net"
	"testing"
	"time"

	coreiface "github.com/ipfs/kubo/core/coreiface"
	"github.com/libp2p/go-libp2p/core/network"
	"github.com/libp2p/go-libp2p/core/peer"
	"github.com/libp2p/go-libp2p/core/protocol"
	"go.uber.org/zap"

	"berty.tech/weshnet/v2/internal/handshake"
	"berty.tech/weshnet/v2/internal/zzverif/vrep"
	"berty.tech/weshnet/v2/pkg/ipfsutil"
	"berty.tech/weshnet/v2/pkg/protocoltypes"
	"berty.tech/weshnet/v2/pkg/protoio"
)

// fakeIPFS is an ExtendedCoreAPI of which only Swarm().Connect and NewStream work (all SendContactRequest uses).
type fakeIPFS struct {
	ipfsutil.ExtendedCoreAPI
	stream network.Stream
}

type fakeSwarm struct{ coreiface.SwarmAPI }

func (fakeSwarm) Connect(context.Context, peer.AddrInfo) error { return nil }
func (f *fakeIPFS) Swarm() coreiface.SwarmAPI                   { return fakeSwarm{} }
func (f *fakeIPFS) NewStream(ctx context.Context, p peer.ID, pids ...protocol.ID) (network.Stream, error) {
	return f.stream, nil
}

// TestVerifC06c: the requesting side of a contact request as the manager drives it. The request is recorded as sent,
// and the requester's own contact card goes out, only when the peer proved to hold the key of the account the
// request was meant for.
func TestVerifC06c(t *testing.T) {
	rep := vrep.New("C06")
	defer func() {
		if err := rep.Finish(); err != nil {
			t.Fatal(err)
		}
		if rep.NViolations() > 0 {
			t.Fail()
		}
	}()
	seed := vrep.Seed()
	w := newVWorld(t, seed)
	defer w.close()
	seedOK := []byte("seed-1-seed-1-seed-1-seed-1-seed")
	type peerCase struct {
		name    string
		peerKey string // account key the dialed peer answers the handshake with; "" = it sends garbage and keeps reading
		succeed bool
	}
	cases := []peerCase{
		{"target-itself", "B", true},
		{"another-account", "M", false},
		{"the-requester-s-own-key", "A", false},
		{"garbage-then-silence", "", false},
	}
	bPK := vDetKey(seed, "acct/B").GetPublic()
	bRaw, _ := bPK.Raw()
	for ci, pc := range cases {
		dA := w.newDevice("A", fmt.Sprintf("q%d", ci))
		gc := dA.open(dA.accountGroup())
		aSK, err := dA.ss.GetAccountPrivateKey()
		vmust(err)
		ms := gc.MetadataStore()
		_, err = ms.ContactRequestReferenceReset(w.ctx)
		vmust(err)
		_, err = ms.ContactRequestEnable(w.ctx)
		vmust(err)
		target := &protocoltypes.ShareableContact{Pk: bRaw, PublicRendezvousSeed: seedOK, Metadata: []byte("b")}
		_, err = ms.ContactRequestOutgoingEnqueue(w.ctx, target, []byte("own-meta"))
		vmust(err)
		c1, c2 := net.Pipe()
		_ = c1.SetDeadline(time.Now().Add(40 * time.Second))
		_ = c2.SetDeadline(time.Now().Add(40 * time.Second))
		mgr := &contactRequestsManager{logger: zap.NewNop(), accountPrivateKey: aSK, metadataStore: ms, lookupProcess: map[string]context.CancelFunc{}, ipfs: &fakeIPFS{stream: &pipeStream{c: c1}}}
		// the dialed peer
		type peerResult struct {
			handshakeErr error
			afterFrames  int // frames the peer received after its side of the handshake ended
			contact      *protocoltypes.ShareableContact
		}
		peerDone := make(chan peerResult, 1)
		go func() {
			var r peerResult
			reader := protoio.NewDelimitedReader(c2, 2048)
			writer := protoio.NewDelimitedWriter(c2)
			if pc.peerKey == "" {
				// (the pipe is synchronous: take the requester's first frame, then answer with garbage)
				buf := make([]byte, 4096)
				_, _ = c2.Read(buf)
				_, _ = c2.Write([]byte{0x03, 0xff, 0xff, 0xff})
				r.handshakeErr = fmt.Errorf("garbage sent")
			} else {
				_, r.handshakeErr = handshake.ResponseUsingReaderWriter(context.Background(), zap.NewNop(), reader, writer, vDetKey(seed, "acct/"+pc.peerKey))
			}
			if r.handshakeErr != nil && pc.peerKey != "" {
				// an impostor does not stop at its own failure: it answers the pending step with a well-framed
				// frame of junk, so that the requester is not left waiting, and goes on reading
				_ = writer.WriteMsg(&handshake.BoxEnvelope{Box: []byte("this is not a sealed acknowledgement, only bytes")})
			}
			// whatever the outcome, keep the stream open and read what the requester still sends
			_ = c2.SetReadDeadline(time.Now().Add(3 * time.Second))
			for {
				sc := &protocoltypes.ShareableContact{}
				if err := reader.ReadMsg(sc); err != nil {
					break
				}
				r.afterFrames++
				if len(sc.Pk) > 0 {
					r.contact = sc
				}
			}
			_ = c2.Close()
			peerDone <- r
		}()
		before := ms.OpLog().Len()
		ctx, cancel := context.WithTimeout(context.Background(), 30*time.Second)
		serr := mgr.SendContactRequest(ctx, target, bPK, peer.AddrInfo{})
		cancel()
		_ = c1.Close()
		pr := <-peerDone
		after := ms.OpLog().Len()
		state := protocoltypes.ContactState_ContactStateUndefined
		if c, ok := ms.ListContacts()[string(bRaw)]; ok {
			state = c.state
		}
		rep.Eval(fmt.Sprintf("outgoing-request/%s/err=%v/appended=%d/state=%s/own-card-sent=%v", pc.name, serr != nil, after-before, state, pr.contact != nil))
		rep.AddTransitions(1)
		detail := fmt.Sprintf("the dialed peer answers as '%s': SendContactRequest error %v, %d entries appended, contact state %s, own contact card received by the peer: %v", pc.name, serr, after-before, state, pr.contact != nil)
		if pc.succeed {
			if serr != nil || state != protocoltypes.ContactState_ContactStateAdded || after != before+1 || pr.contact == nil {
				rep.Violation("C06/outgoing-request-to-the-right-peer-fails", detail, map[string]string{"case": pc.name})
			}
		} else {
			if serr == nil || after != before || state != protocoltypes.ContactState_ContactStateToRequest {
				rep.Violation("C06/outgoing-request-recorded-without-authentication", detail, map[string]string{"case": pc.name})
			}
			if pr.contact != nil {
				rep.Violation("C06/own-contact-card-sent-to-unauthenticated-peer", detail, map[string]string{"case": pc.name})
			}
		}
		_ = gc.Close()
	}
	rep.AddStates(int64(len(cases)))
	rep.Sample(map[string]interface{}{"part": "outgoing request as the manager drives it", "cases": len(cases)})
}
