//go:build verif

package weshnet

import (
	"context"
	"encoding/hex"
	"fmt"
	"sort"
	"strings"

	"github.com/libp2p/go-libp2p/core/crypto"

	"berty.tech/weshnet/v2/pkg/protocoltypes"
)

// ---- operation alphabet on an account group's metadata store

type mOp struct {
	Kind    string `json:"op"`
	Contact string `json:"contact,omitempty"` // X | Y | SELF
	Variant int    `json:"variant,omitempty"` // seed/metadata variant
}

func (o mOp) String() string {
	if o.Contact != "" {
		return fmt.Sprintf("%s(%s,%d)", o.Kind, o.Contact, o.Variant)
	}
	return o.Kind
}

type mEnv struct {
	seed     int64
	ownPK    crypto.PubKey
	contacts map[string]crypto.PubKey
	g1       *protocoltypes.Group
	g1pk     crypto.PubKey
}

func newMEnv(seed int64, own crypto.PubKey) *mEnv {
	e := &mEnv{seed: seed, ownPK: own, contacts: map[string]crypto.PubKey{}}
	for _, c := range []string{"X", "Y"} {
		e.contacts[c] = vDetKey(seed, "acct/"+c).GetPublic()
	}
	e.contacts["SELF"] = own
	// "O": 32 bytes that are accepted as a contact key (only the length is checked) and are no curve point, so no
	// contact group can be derived for it; the lifecycle of such a contact is the same as any other's
	if oc, err := crypto.UnmarshalEd25519PublicKey(c19OffCurveKey(0)); err == nil {
		e.contacts["O"] = oc
	}
	e.g1 = vDetGroup(seed, "G1")
	e.g1pk, _ = e.g1.GetPubKey()
	return e
}

func vDetGroup(seed int64, label string) *protocoltypes.Group {
	priv := vDetKey(seed, "group/"+label)
	signing := vDetKey(seed, "groupsecret/"+label)
	pub, _ := priv.GetPublic().Raw()
	raw, _ := signing.Raw()
	secret := raw[:32]
	sig, _ := priv.Sign(secret)
	g := &protocoltypes.Group{PublicKey: pub, Secret: secret, SecretSig: sig, GroupType: protocoltypes.GroupType_GroupTypeMultiMember}
	lk, err := g.GetLinkKeyArray()
	vmust(err)
	g.LinkKeySig, _ = priv.Sign(lk[:])
	return g
}

func (e *mEnv) seedVariant(v int) []byte {
	switch v {
	case 1:
		return []byte("seed-1-seed-1-seed-1-seed-1-seed") // 32 bytes
	case 2:
		return []byte("seed-2-seed-2-seed-2-seed-2-seed")
	case 3:
		return []byte("seed-1-seed-1-seed-1-seed-1-seed") // same seed as variant 1, other metadata
	}
	return nil
}

func (e *mEnv) metaVariant(v int) []byte {
	switch v {
	case 1:
		return []byte("meta-1")
	case 2:
		return nil
	case 3:
		return []byte("meta-3")
	}
	return nil
}

func (e *mEnv) shareable(c string, v int) *protocoltypes.ShareableContact {
	pk, _ := e.contacts[c].Raw()
	return &protocoltypes.ShareableContact{Pk: pk, PublicRendezvousSeed: e.seedVariant(v), Metadata: e.metaVariant(v)}
}

// apply runs one operation on the real store; returns the error of the call.
func (e *mEnv) apply(ctx context.Context, ms *MetadataStore, op mOp) error {
	var err error
	switch op.Kind {
	case "enqueue":
		_, err = ms.ContactRequestOutgoingEnqueue(ctx, e.shareable(op.Contact, op.Variant), []byte("own-meta"))
	case "sent":
		_, err = ms.ContactRequestOutgoingSent(ctx, e.contacts[op.Contact])
	case "received":
		_, err = ms.ContactRequestIncomingReceived(ctx, e.shareable(op.Contact, op.Variant))
	case "discard":
		_, err = ms.ContactRequestIncomingDiscard(ctx, e.contacts[op.Contact])
	case "accept":
		_, err = ms.ContactRequestIncomingAccept(ctx, e.contacts[op.Contact])
	case "block":
		_, err = ms.ContactBlock(ctx, e.contacts[op.Contact])
	case "unblock":
		_, err = ms.ContactUnblock(ctx, e.contacts[op.Contact])
	case "cr-enable":
		_, err = ms.ContactRequestEnable(ctx)
	case "cr-disable":
		_, err = ms.ContactRequestDisable(ctx)
	case "cr-reset":
		_, err = ms.ContactRequestReferenceReset(ctx)
	case "join":
		_, err = ms.GroupJoin(ctx, e.g1)
	case "leave":
		_, err = ms.GroupLeave(ctx, e.g1pk)
	case "credential":
		_, err = ms.SendAccountVerifiedCredentialAdded(ctx, &protocoltypes.AccountVerifiedCredentialRegistered{Identifier: fmt.Sprintf("id-%d", op.Variant), Issuer: "issuer", RegistrationDate: 1, ExpirationDate: 2})
	case "replicating":
		_, err = ms.SendGroupReplicating(ctx, "https://auth.example", "replication.example")
	case "app-meta":
		_, err = ms.SendAppMetadata(ctx, []byte("app"))
	default:
		panic("unknown op " + op.Kind)
	}
	return err
}

// ---- reference model: events applied in log order, the latest event about a subject wins; seed and metadata of a
// contact are those of the newest enqueue / incoming-received event carrying a non-empty value.

type refContact struct {
	state protocoltypes.ContactState
	seed  []byte
	meta  []byte
}

type refMeta struct {
	contacts  map[string]*refContact
	crEnabled bool
	crSeed    []byte
	groups    map[string]bool
	creds     []string
	own       []byte
}

func newRefMeta(own crypto.PubKey) *refMeta {
	b, _ := own.Raw()
	return &refMeta{contacts: map[string]*refContact{}, groups: map[string]bool{}, own: b}
}

func (r *refMeta) contact(pk []byte) *refContact {
	c, ok := r.contacts[string(pk)]
	if !ok {
		c = &refContact{}
		r.contacts[string(pk)] = c
	}
	return c
}

// applyEvent applies one opened metadata event (what a log entry contains).
func (r *refMeta) applyEvent(ev *protocoltypes.GroupMetadataEvent) {
	unm := func(m interface{ Unmarshal([]byte) error }) {}
	_ = unm
	switch ev.Metadata.EventType {
	case protocoltypes.EventType_EventTypeAccountContactRequestOutgoingEnqueued:
		e := &protocoltypes.AccountContactRequestOutgoingEnqueued{}
		vmust(protoUnmarshal(ev.Event, e))
		c := r.contact(e.Contact.Pk)
		c.state = protocoltypes.ContactState_ContactStateToRequest
		if len(e.Contact.PublicRendezvousSeed) > 0 {
			c.seed = e.Contact.PublicRendezvousSeed
		}
		if len(e.Contact.Metadata) > 0 {
			c.meta = e.Contact.Metadata
		}
	case protocoltypes.EventType_EventTypeAccountContactRequestOutgoingSent:
		e := &protocoltypes.AccountContactRequestOutgoingSent{}
		vmust(protoUnmarshal(ev.Event, e))
		r.contact(e.ContactPk).state = protocoltypes.ContactState_ContactStateAdded
	case protocoltypes.EventType_EventTypeAccountContactRequestIncomingReceived:
		e := &protocoltypes.AccountContactRequestIncomingReceived{}
		vmust(protoUnmarshal(ev.Event, e))
		c := r.contact(e.ContactPk)
		c.state = protocoltypes.ContactState_ContactStateReceived
		if len(e.ContactRendezvousSeed) > 0 {
			c.seed = e.ContactRendezvousSeed
		}
		if len(e.ContactMetadata) > 0 {
			c.meta = e.ContactMetadata
		}
	case protocoltypes.EventType_EventTypeAccountContactRequestIncomingDiscarded:
		e := &protocoltypes.AccountContactRequestIncomingDiscarded{}
		vmust(protoUnmarshal(ev.Event, e))
		r.contact(e.ContactPk).state = protocoltypes.ContactState_ContactStateDiscarded
	case protocoltypes.EventType_EventTypeAccountContactRequestIncomingAccepted:
		e := &protocoltypes.AccountContactRequestIncomingAccepted{}
		vmust(protoUnmarshal(ev.Event, e))
		r.contact(e.ContactPk).state = protocoltypes.ContactState_ContactStateAdded
	case protocoltypes.EventType_EventTypeAccountContactBlocked:
		e := &protocoltypes.AccountContactBlocked{}
		vmust(protoUnmarshal(ev.Event, e))
		r.contact(e.ContactPk).state = protocoltypes.ContactState_ContactStateBlocked
	case protocoltypes.EventType_EventTypeAccountContactUnblocked:
		e := &protocoltypes.AccountContactUnblocked{}
		vmust(protoUnmarshal(ev.Event, e))
		r.contact(e.ContactPk).state = protocoltypes.ContactState_ContactStateRemoved
	case protocoltypes.EventType_EventTypeAccountContactRequestEnabled:
		r.crEnabled = true
	case protocoltypes.EventType_EventTypeAccountContactRequestDisabled:
		r.crEnabled = false
	case protocoltypes.EventType_EventTypeAccountContactRequestReferenceReset:
		e := &protocoltypes.AccountContactRequestReferenceReset{}
		vmust(protoUnmarshal(ev.Event, e))
		r.crSeed = e.PublicRendezvousSeed
	case protocoltypes.EventType_EventTypeAccountGroupJoined:
		e := &protocoltypes.AccountGroupJoined{}
		vmust(protoUnmarshal(ev.Event, e))
		r.groups[string(e.Group.PublicKey)] = true
	case protocoltypes.EventType_EventTypeAccountGroupLeft:
		e := &protocoltypes.AccountGroupLeft{}
		vmust(protoUnmarshal(ev.Event, e))
		r.groups[string(e.GroupPk)] = false
	case protocoltypes.EventType_EventTypeAccountVerifiedCredentialRegistered:
		e := &protocoltypes.AccountVerifiedCredentialRegistered{}
		vmust(protoUnmarshal(ev.Event, e))
		r.creds = append(r.creds, e.Identifier+"/"+e.Issuer)
	}
}

func hx6(b []byte) string {
	if len(b) > 6 {
		return hex.EncodeToString(b[:6])
	}
	return hex.EncodeToString(b)
}

// String renders the account-level part of the state vector in the format of metaStateAccount.
func (r *refMeta) String() string {
	var sb strings.Builder
	var cs []string
	for k, c := range r.contacts {
		cs = append(cs, fmt.Sprintf("%s:%s seed=%s meta=%s", hx6([]byte(k)), c.state, hx6(c.seed), string(c.meta)))
	}
	sort.Strings(cs)
	fmt.Fprintf(&sb, "contacts=%v\n", cs)
	fmt.Fprintf(&sb, "contact-requests=%v seed=%s\n", r.crEnabled, hx6(r.crSeed))
	var gs []string
	for k, joined := range r.groups {
		if joined {
			gs = append(gs, hx6([]byte(k)))
		}
	}
	sort.Strings(gs)
	fmt.Fprintf(&sb, "groups=%v\n", gs)
	cr := append([]string{}, r.creds...)
	sort.Strings(cr)
	fmt.Fprintf(&sb, "credentials=%v\n", cr)
	return sb.String()
}

// metaStateAccount is the account-level observable state of a real store, in the reference's format.
func metaStateAccount(ms *MetadataStore) string {
	var sb strings.Builder
	var cs []string
	for k, c := range ms.ListContacts() {
		cs = append(cs, fmt.Sprintf("%s:%s seed=%s meta=%s", hx6([]byte(k)), c.state, hx6(c.contact.PublicRendezvousSeed), string(c.contact.Metadata)))
	}
	sort.Strings(cs)
	fmt.Fprintf(&sb, "contacts=%v\n", cs)
	en, sc := ms.GetIncomingContactRequestsStatus()
	seed := ""
	if sc != nil {
		seed = hx6(sc.PublicRendezvousSeed)
	}
	fmt.Fprintf(&sb, "contact-requests=%v seed=%s\n", en, seed)
	var gs []string
	for _, g := range ms.ListMultiMemberGroups() {
		gs = append(gs, hx6(g.PublicKey))
	}
	sort.Strings(gs)
	fmt.Fprintf(&sb, "groups=%v\n", gs)
	var vc []string
	for _, c := range ms.ListVerifiedCredentials() {
		vc = append(vc, c.GetIdentifier()+"/"+c.GetIssuer())
	}
	sort.Strings(vc)
	fmt.Fprintf(&sb, "credentials=%v\n", vc)
	// cross-getter consistency: ListContactsByStatus and GetContactFromGroupPK agree with ListContacts
	for k, c := range ms.ListContacts() {
		found := false
		for _, sc := range ms.ListContactsByStatus(c.state) {
			if string(sc.Pk) == k {
				found = true
			}
		}
		if !found {
			fmt.Fprintf(&sb, "INCONSISTENT: contact %s not listed under its state %s\n", hx6([]byte(k)), c.state)
		}
	}
	return sb.String()
}
