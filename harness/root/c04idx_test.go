//go:build verif

package weshnet

import (
	"fmt"
	"strings"
	"testing"
	"time"

	"berty.tech/weshnet/v2/internal/zzverif/vrep"
	"berty.tech/weshnet/v2/internal/zzverif/vsync"
)

// C04 part `index-passes`: two tasks write to one account-group store at the same moment. The orbit-db base store
// does not serialize the index passes that follow two appends, so the only thing that orders them is the lock of
// the index itself (store_metadata_index.go, compiled here on the scheduler shims). Whatever the interleaving at
// that lock, once both writes have returned the reported state must be the state of the log - which is also what
// one more pass over the unchanged log reports.

type c04idxWorld struct {
	gc   *GroupContext
	ms   *MetadataStore
	errs []string
	desc string
}

func c04idxScenario(w *vWorld, name string, base []mOp, threads [][]mOp) vsync.Scenario {
	return vsync.Scenario{
		Name: name,
		Setup: func(s *vsync.Sched) vsync.World {
			d := w.newDevice("A", nextDev("i"))
			gc := d.open(d.accountGroup())
			env := newMEnv(w.seed, gc.MemberPubKey())
			for _, op := range base {
				vmust(env.apply(w.ctx, gc.MetadataStore(), op))
			}
			x := &c04idxWorld{gc: gc, ms: gc.MetadataStore(), desc: fmt.Sprintf("base %v, concurrent writers %v", base, threads)}
			for ti, ops := range threads {
				ops := ops
				vsync.GoNamed(fmt.Sprintf("W%d", ti+1), func() {
					for _, op := range ops {
						if err := env.apply(w.ctx, x.ms, op); err != nil {
							x.errs = append(x.errs, fmt.Sprintf("%v: %v", op, err))
						}
					}
				})
			}
			return x
		},
		Check: func(x *vsync.Execution, wd vsync.World) (string, *vsync.Verdict) {
			c := wd.(*c04idxWorld)
			defer func() { _ = c.gc.Close() }()
			if len(x.Panics) > 0 {
				return "panic", &vsync.Verdict{Sig: "C04/panic-in-concurrent-writes", Desc: strings.Join(x.Panics, "\n")}
			}
			if x.Deadlock || x.Horizon {
				return "stuck", &vsync.Verdict{Sig: "C04/concurrent-writes-stuck", Desc: fmt.Sprint(x.BlockedAll)}
			}
			n := c.ms.OpLog().Len()
			before := metaState(c.ms)
			// one more pass over the unchanged log
			if err := c.ms.Index().UpdateIndex(c.ms.OpLog(), nil); err != nil {
				return "reindex-error", &vsync.Verdict{Sig: "C04/reindex-error", Desc: err.Error()}
			}
			after := metaState(c.ms)
			o := fmt.Sprintf("entries=%d errs=%d state=%08x", n, len(c.errs), vHash32(before))
			if before != after {
				return o, &vsync.Verdict{Sig: "C04/state-behind-the-log-after-concurrent-writes", Desc: fmt.Sprintf("%s: both writes have returned, the log holds %d entries, and the reported state is not the state of that log (one more index pass over the unchanged log changes it): %s", c.desc, n, firstDiff(before, after))}
			}
			return o, nil
		},
	}
}

func vHash32(s string) uint32 {
	var h uint32 = 2166136261
	for i := 0; i < len(s); i++ {
		h = (h ^ uint32(s[i])) * 16777619
	}
	return h
}

func TestVerifC04Idx(t *testing.T) {
	rep := vrep.New("C04")
	defer func() {
		if err := rep.Finish(); err != nil {
			t.Fatal(err)
		}
		if rep.NViolations() > 0 {
			t.Fail()
		}
	}()
	w := newVWorld(t, vrep.Seed())
	defer w.close()
	var scs []vsync.Scenario
	scs = append(scs,
		c04idxScenario(w, "block X | disable requests", []mOp{{"enqueue", "X", 1}}, [][]mOp{{{"block", "X", 0}}, {{Kind: "cr-disable"}}}),
		c04idxScenario(w, "reset seed | enqueue Y", []mOp{{Kind: "cr-enable"}}, [][]mOp{{{Kind: "cr-reset"}}, {{"enqueue", "Y", 1}}}),
		c04idxScenario(w, "received X, accept X | join group", nil, [][]mOp{{{"received", "X", 1}, {"accept", "X", 0}}, {{Kind: "join"}}}),
	)
	bound, budget := 2, 4*time.Minute
	if vrep.Thorough() {
		bound, budget = 3, 15*time.Minute
		scs = append(scs,
			c04idxScenario(w, "three writers", []mOp{{"enqueue", "X", 1}}, [][]mOp{{{"block", "X", 0}}, {{Kind: "cr-disable"}}, {{Kind: "credential", Variant: 1}}}),
		)
	}
	vsync.ExploreScenarios(rep, "index-passes", scs, bound, 3000, budget)
}
