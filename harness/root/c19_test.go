//go:build verif

package weshnet

import (
	"bytes"
	"context"
	"fmt"
	"github.com/libp2p/go-libp2p/core/crypto"
	"reflect"
	"runtime"
	"sort"
	"strings"
	"sync"
	"testing"
	"time"

	"github.com/ipfs/go-cid"
	"google.golang.org/grpc"
	"google.golang.org/grpc/metadata"
	"google.golang.org/protobuf/proto"
	"google.golang.org/protobuf/reflect/protoreflect"

	"berty.tech/weshnet/v2/internal/zzverif/vrep"
	"berty.tech/weshnet/v2/pkg/cryptoutil"
	"berty.tech/weshnet/v2/pkg/protocoltypes"
)

// recStream is a recording server stream for the streaming methods invoked in-process.
type recStream[T any] struct {
	mu   sync.Mutex
	ctx  context.Context
	sent int
	msgs []*T
	// onSend, if set, is called after every message (used to end streams that the handler keeps open)
	onSend func(n int)
}

func (r *recStream[T]) Send(m *T) error {
	r.mu.Lock()
	r.sent++
	n := r.sent
	r.msgs = append(r.msgs, m)
	r.mu.Unlock()
	if r.onSend != nil {
		r.onSend(n)
	}
	return nil
}

func (r *recStream[T]) all() []*T {
	r.mu.Lock()
	defer r.mu.Unlock()
	return append([]*T(nil), r.msgs...)
}
func (r *recStream[T]) SetHeader(metadata.MD) error  { return nil }
func (r *recStream[T]) SendHeader(metadata.MD) error { return nil }
func (r *recStream[T]) SetTrailer(metadata.MD)       {}
func (r *recStream[T]) Context() context.Context     { return r.ctx }
func (r *recStream[T]) SendMsg(m any) error          { r.sent++; return nil }
func (r *recStream[T]) RecvMsg(m any) error          { return nil }

var _ grpc.ServerStream = (*recStream[int])(nil)

func streamFor(method string, ctx context.Context) reflect.Value {
	switch method {
	case "ServiceExportData":
		return reflect.ValueOf(&recStream[protocoltypes.ServiceExportData_Reply]{ctx: ctx})
	case "GroupMetadataList":
		return reflect.ValueOf(&recStream[protocoltypes.GroupMetadataEvent]{ctx: ctx})
	case "GroupMessageList":
		return reflect.ValueOf(&recStream[protocoltypes.GroupMessageEvent]{ctx: ctx})
	case "GroupDeviceStatus":
		return reflect.ValueOf(&recStream[protocoltypes.GroupDeviceStatus_Reply]{ctx: ctx})
	case "DebugListGroups":
		return reflect.ValueOf(&recStream[protocoltypes.DebugListGroups_Reply]{ctx: ctx})
	case "DebugInspectGroupStore":
		return reflect.ValueOf(&recStream[protocoltypes.DebugInspectGroupStore_Reply]{ctx: ctx})
	case "VerifiedCredentialsList":
		return reflect.ValueOf(&recStream[protocoltypes.VerifiedCredentialsList_Reply]{ctx: ctx})
	}
	panic("HARNESS: no stream stub for " + method)
}

// svcState is what the service has been brought to before the requests are issued.
type svcOp string

type c19Env struct {
	tp         *TestingProtocol
	cleanup    func()
	accountPK  []byte
	mmPK       []byte // a multi-member group created through the service (nil if none)
	contactPK  []byte // a contact added through the service
	contactGPK []byte
	invitation *protocoltypes.Group
	shareable  *protocoltypes.ShareableContact
	msgCID     []byte
	// identifiers of real log entries (oldest and newest metadata / message entry of the account group and of the
	// multi-member group while they are open): listing requests are also issued with real bounds, in both orders
	eventIDs [][]byte
	// a genuine push payload of the group's last message and malformed variants of it (known group reference with
	// odd nonce / box lengths)
	oosVariants [][]byte
}

func newC19Env(t testing.TB, seed int64, ops []svcOp) *c19Env {
	ctx := context.Background()
	tp, cleanup := NewTestingProtocol(ctx, t, nil, nil)
	e := &c19Env{tp: tp, cleanup: cleanup}
	cfg, err := tp.Service.ServiceGetConfiguration(ctx, &protocoltypes.ServiceGetConfiguration_Request{})
	vmust(err)
	e.accountPK = cfg.AccountGroupPk
	e.invitation = vDetGroup(seed, "c19-invitation")
	xpk, _ := vDetKey(seed, "acct/X").GetPublic().Raw()
	e.shareable = &protocoltypes.ShareableContact{Pk: xpk, PublicRendezvousSeed: []byte("seed-1-seed-1-seed-1-seed-1-seed"), Metadata: []byte("m")}
	for _, op := range ops {
		switch op {
		case "deactivate-account":
			_, _ = tp.Service.DeactivateGroup(ctx, &protocoltypes.DeactivateGroup_Request{GroupPk: e.accountPK})
		case "activate-account":
			_, _ = tp.Service.ActivateGroup(ctx, &protocoltypes.ActivateGroup_Request{GroupPk: e.accountPK})
		case "create-group":
			r, err := tp.Service.MultiMemberGroupCreate(ctx, &protocoltypes.MultiMemberGroupCreate_Request{})
			if err == nil {
				e.mmPK = r.GroupPk
				_, _ = tp.Service.ActivateGroup(ctx, &protocoltypes.ActivateGroup_Request{GroupPk: e.mmPK})
				for i := 0; i < 3; i++ {
					if sr, err := tp.Service.AppMessageSend(ctx, &protocoltypes.AppMessageSend_Request{GroupPk: e.mmPK, Payload: []byte("hello")}); err == nil {
						e.msgCID = sr.Cid
					}
				}
			}
		case "deactivate-group":
			if e.mmPK != nil {
				_, _ = tp.Service.DeactivateGroup(ctx, &protocoltypes.DeactivateGroup_Request{GroupPk: e.mmPK})
			}
		case "add-contact":
			if _, err := tp.Service.ContactRequestSend(ctx, &protocoltypes.ContactRequestSend_Request{Contact: e.shareable}); err == nil {
				e.contactPK = xpk
				if gi, err := tp.Service.GroupInfo(ctx, &protocoltypes.GroupInfo_Request{ContactPk: xpk}); err == nil {
					e.contactGPK = gi.Group.PublicKey
					_, _ = tp.Service.ActivateGroup(ctx, &protocoltypes.ActivateGroup_Request{GroupPk: e.contactGPK})
				}
			}
		case "odd-contact":
			// a contact whose 32-byte key is no curve point, brought to the state "added" through requests that are
			// all accepted: block, unblock, send a request
			np := c19OffCurveKey(1) // not the one in the request alphabet: no request of the catalogue changes this contact
			_, _ = tp.Service.ContactBlock(ctx, &protocoltypes.ContactBlock_Request{ContactPk: np})
			_, _ = tp.Service.ContactUnblock(ctx, &protocoltypes.ContactUnblock_Request{ContactPk: np})
			_, _ = tp.Service.ContactRequestSend(ctx, &protocoltypes.ContactRequestSend_Request{Contact: &protocoltypes.ShareableContact{Pk: np, PublicRendezvousSeed: []byte("seed-1-seed-1-seed-1-seed-1-seed")}})
		case "deactivate-contact-group":
			if e.contactGPK != nil {
				_, _ = tp.Service.DeactivateGroup(ctx, &protocoltypes.DeactivateGroup_Request{GroupPk: e.contactGPK})
			}
		}
	}
	if e.mmPK != nil && e.msgCID != nil {
		if sealed, err := tp.Service.OutOfStoreSeal(ctx, &protocoltypes.OutOfStoreSeal_Request{Cid: e.msgCID, GroupPublicKey: e.mmPK}); err == nil {
			// the references of the own device exist once the message loop has handled the own message
			deadline := time.Now().Add(15 * time.Second)
			for time.Now().Before(deadline) {
				if _, err := tp.Service.OutOfStoreReceive(ctx, &protocoltypes.OutOfStoreReceive_Request{Payload: sealed.Encrypted}); err == nil {
					break
				}
				time.Sleep(5 * time.Millisecond)
			}
			env := &protocoltypes.OutOfStoreMessageEnvelope{}
			if proto.Unmarshal(sealed.Encrypted, env) == nil {
				e.oosVariants = append(e.oosVariants, sealed.Encrypted)
				mut := func(f func(m *protocoltypes.OutOfStoreMessageEnvelope)) {
					m := proto.Clone(env).(*protocoltypes.OutOfStoreMessageEnvelope)
					f(m)
					b, _ := proto.Marshal(m)
					e.oosVariants = append(e.oosVariants, b)
				}
				for _, n := range []int{0, 12, 23, 25, 48} {
					n := n
					mut(func(m *protocoltypes.OutOfStoreMessageEnvelope) { m.Nonce = bytes.Repeat([]byte{3}, n) })
				}
				for _, n := range []int{0, 1, 15, 16, 17} {
					n := n
					mut(func(m *protocoltypes.OutOfStoreMessageEnvelope) {
						if n <= len(m.Box) {
							m.Box = m.Box[:n]
						}
					})
				}
				mut(func(m *protocoltypes.OutOfStoreMessageEnvelope) { m.Box[len(m.Box)-1] ^= 1 })
				mut(func(m *protocoltypes.OutOfStoreMessageEnvelope) {
					m.GroupReference = m.GroupReference[:len(m.GroupReference)-1]
				})
				mut(func(m *protocoltypes.OutOfStoreMessageEnvelope) { m.GroupReference = nil })
			}
		}
	}
	for _, pk := range [][]byte{e.accountPK, e.mmPK} {
		if pk == nil {
			continue
		}
		gc, err := tp.Service.(*service).GetContextGroupForID(pk)
		if err != nil || gc == nil {
			continue
		}
		if ms := gc.MetadataStore(); ms != nil {
			if es := ms.OpLog().Values().Slice(); len(es) > 0 {
				e.eventIDs = append(e.eventIDs, es[0].GetHash().Bytes(), es[len(es)-1].GetHash().Bytes())
			}
		}
		if ms := gc.MessageStore(); ms != nil {
			if es := ms.OpLog().Values().Slice(); len(es) > 0 {
				e.eventIDs = append(e.eventIDs, es[0].GetHash().Bytes(), es[len(es)-1].GetHash().Bytes())
			}
		}
	}
	return e
}

// fieldValues is the catalogue of values for one request field; the last element is the "valid" default.
func (e *c19Env) fieldValues(seed int64, f protoreflect.FieldDescriptor) []protoreflect.Value {
	name := string(f.Name())
	if f.IsList() || f.IsMap() {
		return nil // left empty
	}
	switch f.Kind() {
	case protoreflect.BytesKind:
		unknown, _ := vDetKey(seed, "c19/unknown").GetPublic().Raw()
		known := e.accountPK
		switch {
		case strings.Contains(name, "contact_pk") && e.contactPK != nil:
			known = e.contactPK
		case strings.Contains(name, "contact_pk"):
			known = unknown
		case strings.Contains(name, "group_pk") && e.mmPK != nil:
			known = e.mmPK
		case name == "cid" || strings.HasSuffix(name, "_id"):
			if e.msgCID != nil {
				known = e.msgCID
			} else {
				known = cidOfBytes([]byte("x")).Bytes()
			}
		case name == "encoded_contact":
			known, _ = proto.Marshal(e.shareable)
		case name == "payload":
			known = []byte("payload")
		}
		// 32 bytes that have the length of a key and are not the encoding of a curve point
		notAPoint := c19OffCurveKey(0)
		vals := [][]byte{nil, {}, {1}, bytes.Repeat([]byte{7}, 31), bytes.Repeat([]byte{0xff}, 32), notAPoint, unknown, bytes.Repeat([]byte{7}, 33), bytes.Repeat([]byte{0xAB}, 64*1024)}
		if strings.Contains(name, "group_pk") {
			vals = append(vals, e.accountPK)
			if e.contactGPK != nil {
				vals = append(vals, e.contactGPK)
			}
		}
		if strings.HasSuffix(name, "_id") {
			vals = append(vals, e.eventIDs...)
		}
		if name == "payload" {
			vals = append(vals, e.oosVariants...)
		}
		vals = append(vals, known)
		var out []protoreflect.Value
		for _, v := range vals {
			out = append(out, protoreflect.ValueOfBytes(v))
		}
		return out
	case protoreflect.StringKind:
		return []protoreflect.Value{protoreflect.ValueOfString(""), protoreflect.ValueOfString("x"), protoreflect.ValueOfString("http://127.0.0.1:1/" + name), protoreflect.ValueOfString("127.0.0.1:1")}
	case protoreflect.BoolKind:
		return []protoreflect.Value{protoreflect.ValueOfBool(true), protoreflect.ValueOfBool(false)}
	case protoreflect.EnumKind:
		// one undefined number and every defined value of the enum (the last one is the default "valid" choice)
		out := []protoreflect.Value{protoreflect.ValueOfEnum(999)}
		vs := f.Enum().Values()
		for i := 0; i < vs.Len(); i++ {
			out = append(out, protoreflect.ValueOfEnum(vs.Get(i).Number()))
		}
		return out
	case protoreflect.Int32Kind, protoreflect.Int64Kind, protoreflect.Sint32Kind, protoreflect.Sint64Kind:
		if f.Kind() == protoreflect.Int32Kind || f.Kind() == protoreflect.Sint32Kind {
			return []protoreflect.Value{protoreflect.ValueOfInt32(-1), protoreflect.ValueOfInt32(1 << 30), protoreflect.ValueOfInt32(0)}
		}
		return []protoreflect.Value{protoreflect.ValueOfInt64(-1), protoreflect.ValueOfInt64(1 << 62), protoreflect.ValueOfInt64(0)}
	case protoreflect.Uint32Kind, protoreflect.Uint64Kind:
		if f.Kind() == protoreflect.Uint32Kind {
			return []protoreflect.Value{protoreflect.ValueOfUint32(1 << 31), protoreflect.ValueOfUint32(0)}
		}
		return []protoreflect.Value{protoreflect.ValueOfUint64(1 << 63), protoreflect.ValueOfUint64(0)}
	case protoreflect.MessageKind:
		var valid proto.Message
		switch string(f.Message().Name()) {
		case "Group":
			valid = e.invitation
		case "ShareableContact":
			valid = e.shareable
		default:
			valid = nil
		}
		out := []protoreflect.Value{{}} // unset (nil sub-message)
		empty := reflect.New(reflect.TypeOf(protoMessageOf(f)).Elem()).Interface().(proto.Message)
		out = append(out, protoreflect.ValueOfMessage(empty.ProtoReflect()))
		if valid != nil {
			// malformed variants of the valid message: every bytes field emptied in turn
			r := valid.ProtoReflect()
			fs := r.Descriptor().Fields()
			for i := 0; i < fs.Len(); i++ {
				if fs.Get(i).Kind() == protoreflect.BytesKind {
					c := proto.Clone(valid)
					c.ProtoReflect().Clear(fs.Get(i))
					out = append(out, protoreflect.ValueOfMessage(c.ProtoReflect()))
				}
			}
			out = append(out, protoreflect.ValueOfMessage(valid.ProtoReflect()))
		}
		return out
	}
	return nil
}

func protoMessageOf(f protoreflect.FieldDescriptor) proto.Message {
	switch string(f.Message().Name()) {
	case "Group":
		return &protocoltypes.Group{}
	case "ShareableContact":
		return &protocoltypes.ShareableContact{}
	}
	return &protocoltypes.Group{}
}

// requests enumerates requests for one method: all combinations over at most 3 varying fields (the others valid).
func (e *c19Env) requests(seed int64, reqType reflect.Type) []proto.Message {
	proto0 := reflect.New(reqType.Elem()).Interface().(proto.Message)
	fields := proto0.ProtoReflect().Descriptor().Fields()
	type fv struct {
		f    protoreflect.FieldDescriptor
		vals []protoreflect.Value
	}
	var fvs []fv
	for i := 0; i < fields.Len(); i++ {
		f := fields.Get(i)
		if f.Kind() == protoreflect.MessageKind && f.Message().Name() != "Group" && f.Message().Name() != "ShareableContact" {
			continue
		}
		vals := e.fieldValues(seed, f)
		if len(vals) > 0 {
			fvs = append(fvs, fv{f, vals})
		}
	}
	build := func(choice []int) proto.Message {
		m := reflect.New(reqType.Elem()).Interface().(proto.Message)
		r := m.ProtoReflect()
		for i, x := range fvs {
			v := x.vals[choice[i]]
			if !v.IsValid() {
				continue
			}
			if x.f.Kind() == protoreflect.BytesKind && v.Bytes() == nil {
				continue
			}
			r.Set(x.f, v)
		}
		return m
	}
	var out []proto.Message
	out = append(out, nil) // the nil request itself is not sent: grpc never hands a nil request to a handler
	out = out[:0]
	if len(fvs) == 0 {
		return []proto.Message{reflect.New(reqType.Elem()).Interface().(proto.Message)}
	}
	valid := make([]int, len(fvs))
	for i, x := range fvs {
		valid[i] = len(x.vals) - 1
	}
	// subsets of at most 3 varying fields
	var subsets [][]int
	n := len(fvs)
	for a := 0; a < n; a++ {
		subsets = append(subsets, []int{a})
		for b := a + 1; b < n; b++ {
			subsets = append(subsets, []int{a, b})
			for c := b + 1; c < n; c++ {
				subsets = append(subsets, []int{a, b, c})
			}
		}
	}
	if n <= 3 {
		all := make([]int, n)
		for i := range all {
			all[i] = i
		}
		subsets = [][]int{all}
	}
	seen := map[string]bool{}
	for _, sub := range subsets {
		idx := make([]int, len(sub))
		for {
			choice := append([]int{}, valid...)
			for k, fi := range sub {
				choice[fi] = idx[k]
			}
			key := fmt.Sprint(choice)
			if !seen[key] {
				seen[key] = true
				out = append(out, build(choice))
			}
			k := 0
			for k < len(sub) {
				idx[k]++
				if idx[k] < len(fvs[sub[k]].vals) {
					break
				}
				idx[k] = 0
				k++
			}
			if k == len(sub) {
				break
			}
		}
	}
	return out
}

type c19Case struct {
	State   []svcOp `json:"service_state"`
	Method  string  `json:"method"`
	Request string  `json:"request"`
}

func shortReq(m proto.Message) string {
	var parts []string
	m.ProtoReflect().Range(func(f protoreflect.FieldDescriptor, v protoreflect.Value) bool {
		s := ""
		switch f.Kind() {
		case protoreflect.BytesKind:
			b := v.Bytes()
			s = fmt.Sprintf("%s=%dB:%x", f.Name(), len(b), b[:minInt(4, len(b))])
		case protoreflect.MessageKind:
			s = fmt.Sprintf("%s={%s}", f.Name(), shortReq(v.Message().Interface()))
		default:
			s = fmt.Sprintf("%s=%v", f.Name(), v.Interface())
		}
		parts = append(parts, s)
		return true
	})
	sort.Strings(parts)
	return strings.Join(parts, " ")
}

func minInt(a, b int) int {
	if a < b {
		return a
	}
	return b
}

// c19CallAll issues every request of every method against the service of env.
func c19CallAll(rep *vrep.Report, t testing.TB, seed int64, state []svcOp, e *c19Env) *c19Env {
	svcT := reflect.TypeOf((*protocoltypes.ProtocolServiceServer)(nil)).Elem()
	sv := reflect.ValueOf(e.tp.Service)
	stateName := "initial"
	if len(state) > 0 {
		stateName = fmt.Sprint(state)
	}
	// methods that change which groups are active come last, so that every other method sees the labelled state
	var methods []reflect.Method
	var last []reflect.Method
	for i := 0; i < svcT.NumMethod(); i++ {
		m := svcT.Method(i)
		if m.PkgPath != "" { // unexported (mustEmbedUnimplemented...)
			continue
		}
		switch m.Name {
		case "ActivateGroup", "DeactivateGroup", "MultiMemberGroupLeave":
			last = append(last, m)
		default:
			methods = append(methods, m)
		}
	}
	stateChanging := map[string]bool{}
	for _, m := range last {
		stateChanging[m.Name] = true
	}
	for _, m := range append(methods, last...) {
		mt := m.Type
		streaming := mt.NumIn() == 2 && mt.In(0).Kind() == reflect.Ptr && mt.In(1).Kind() == reflect.Interface && mt.NumOut() == 1
		var reqType reflect.Type
		if streaming {
			reqType = mt.In(0)
		} else {
			reqType = mt.In(1)
		}
		reqs := e.requests(seed, reqType)
		fn := sv.MethodByName(m.Name)
		for ri := 0; ri < len(reqs); ri++ {
			req := reqs[ri]
			timeout := 250 * time.Millisecond
			ctx, cancel := context.WithTimeout(context.Background(), timeout)
			var errOut error
			var pan interface{}
			var stack string
			done := make(chan struct{})
			go func() {
				defer close(done)
				defer func() {
					if r := recover(); r != nil {
						pan = r
						buf := make([]byte, 2048)
						stack = string(buf[:runtime.Stack(buf, false)])
					}
				}()
				var outs []reflect.Value
				if streaming {
					outs = fn.Call([]reflect.Value{reflect.ValueOf(req), streamFor(m.Name, ctx)})
					if !outs[0].IsNil() {
						errOut = outs[0].Interface().(error)
					}
				} else {
					outs = fn.Call([]reflect.Value{reflect.ValueOf(ctx), reflect.ValueOf(req)})
					if !outs[1].IsNil() {
						errOut = outs[1].Interface().(error)
					}
				}
			}()
			select {
			case <-done:
			case <-time.After(20 * time.Second):
				cancel()
				rep.Violation("C19/method-hangs/"+m.Name, fmt.Sprintf("state %s: %s(%s) does not return within 20s although its context expired after %s", stateName, m.Name, shortReq(req), timeout), c19Case{state, m.Name, shortReq(req)})
				continue
			}
			cancel()
			rep.Eval(fmt.Sprintf("%s/%s/err=%v", stateName, m.Name, errOut != nil))
			rep.AddTransitions(1)
			if stateChanging[m.Name] && errOut == nil && pan == nil {
				// the request changed which groups are active: bring a fresh service to the labelled state again, so
				// that the next request of this method is issued in that state too
				e.cleanup()
				e = newC19Env(t, seed, state)
				sv = reflect.ValueOf(e.tp.Service)
				fn = sv.MethodByName(m.Name)
				// same catalogue, values of the new service instance (its account and groups have fresh keys)
				if nr := e.requests(seed, reqType); len(nr) == len(reqs) {
					reqs = nr
				}
				rep.Add("service_rebuilt_after_state_change", 1)
			}
			if pan != nil {
				site := panicSite(stack)
				rep.Violation("C19/panic/"+m.Name+"@"+site, fmt.Sprintf("state %s: %s(%s) panics: %v\n%s", stateName, m.Name, shortReq(req), pan, firstLines(stack, 14)), c19Case{state, m.Name, shortReq(req)})
			}
		}
	}
	return e
}

func firstLines(s string, n int) string {
	l := strings.Split(s, "\n")
	if len(l) > n {
		l = l[:n]
	}
	return strings.Join(l, "\n")
}

// panicSite extracts the first weshnet frame below the panic (function name) for a stable signature.
func panicSite(stack string) string {
	lines := strings.Split(stack, "\n")
	afterPanic := false
	for _, l := range lines {
		if strings.HasPrefix(l, "panic(") {
			afterPanic = true
			continue
		}
		if afterPanic && strings.HasPrefix(l, "berty.tech/weshnet/v2") && !strings.Contains(l, "c19CallAll") {
			f := l
			if i := strings.LastIndex(f, "("); i > 0 {
				f = f[:i]
			}
			return f[strings.LastIndex(f, "/")+1:]
		}
	}
	return "unknown"
}

func TestVerifC19(t *testing.T) {
	rep := vrep.New("C19")
	defer func() {
		if err := rep.Finish(); err != nil {
			t.Fatal(err)
		}
		if rep.NViolations() > 0 {
			t.Fail()
		}
	}()
	seed := vrep.Seed()
	// ---- service states: BFS over activation histories, canonical = set of active groups
	alphabet := []svcOp{"deactivate-account", "activate-account", "create-group", "deactivate-group", "add-contact", "deactivate-contact-group"}
	depth := 2
	if vrep.Thorough() {
		depth = 3
	}
	canon := func(h []svcOp) string {
		acc, mm, mmAct, ct, ctAct := true, false, false, false, false
		for _, op := range h {
			switch op {
			case "deactivate-account":
				acc = false
			case "activate-account":
				acc = true
			case "create-group":
				if acc {
					mm, mmAct = true, true
				}
			case "deactivate-group":
				mmAct = false
			case "add-contact":
				if acc {
					ct, ctAct = true, true
				}
			case "deactivate-contact-group":
				ctAct = false
			}
		}
		return fmt.Sprintf("account=%v group=%v/%v contact=%v/%v", acc, mm, mmAct, ct, ctAct)
	}
	seen := map[string]bool{canon(nil): true}
	frontier := [][]svcOp{nil}
	var states [][]svcOp
	for len(frontier) > 0 {
		h := frontier[0]
		frontier = frontier[1:]
		states = append(states, h)
		if len(h) == depth {
			continue
		}
		for _, op := range alphabet {
			nh := append(append([]svcOp{}, h...), op)
			if k := canon(nh); !seen[k] {
				seen[k] = true
				frontier = append(frontier, nh)
			}
		}
	}
	// one more state outside the activation histories: the account holds an added contact with a key that is not a point
	states = append(states, []svcOp{"odd-contact"})
	for _, st := range states {
		e := newC19Env(t, seed, st)
		e = c19CallAll(rep, t, seed, st, e)
		e.cleanup()
		rep.AddStates(1)
	}
	rep.Sample(map[string]interface{}{"service_states": len(states), "example_state": fmt.Sprint(states[len(states)-1]), "methods": reflect.TypeOf((*protocoltypes.ProtocolServiceServer)(nil)).Elem().NumMethod() - 1})
	rep.AddTraces(rep.Transitions)
	c19Helpers(rep, seed)
}

// c19Helpers: the exported decode / decrypt helpers with every byte string of length <= 2, nil, and every truncation of
// a valid input.
func c19Helpers(rep *vrep.Report, seed int64) {
	var inputs [][]byte
	inputs = append(inputs, nil, []byte{})
	for a := 0; a < 256; a++ {
		inputs = append(inputs, []byte{byte(a)})
		for b := 0; b < 256; b++ {
			inputs = append(inputs, []byte{byte(a), byte(b)})
		}
	}
	g := vDetGroup(seed, "c19-helpers")
	key := bytes.Repeat([]byte{9}, 32)
	validAES, _ := cryptoutil.AESGCMEncrypt(key, []byte("hello world"))
	pk, _ := vDetKey(seed, "acct/X").GetPublic().Raw()
	validContact, _ := proto.Marshal(&protocoltypes.ShareableContact{Pk: pk, PublicRendezvousSeed: bytes.Repeat([]byte{1}, 32), Metadata: []byte("meta")})
	validEnv, _ := sealGroupEnvelope(g, protocoltypes.EventType_EventTypeGroupMetadataPayloadSent, &protocoltypes.GroupMetadataPayloadSent{DevicePk: pk, Message: []byte("m")}, bytes.Repeat([]byte{1}, 64))
	validCid := cidOfBytes([]byte("x")).Bytes()
	for _, v := range [][]byte{validAES, validContact, validEnv, validCid, pk} {
		for cut := 0; cut <= len(v); cut++ {
			inputs = append(inputs, v[:cut])
		}
	}
	svc := &service{}
	type helper struct {
		name string
		fn   func(in []byte)
	}
	ss := c08SecretStore(seed, "H", "1", 2)
	helpers := []helper{
		{"service.DecodeContact", func(in []byte) {
			_, _ = svc.DecodeContact(context.Background(), &protocoltypes.DecodeContact_Request{EncodedContact: in})
		}},
		{"cryptoutil.AESGCMDecrypt", func(in []byte) { _, _ = cryptoutil.AESGCMDecrypt(key, in) }},
		{"cryptoutil.AESGCMDecrypt(key)", func(in []byte) { _, _ = cryptoutil.AESGCMDecrypt(in, validAES) }},
		{"cryptoutil.KeySliceToArray", func(in []byte) { _, _ = cryptoutil.KeySliceToArray(in) }},
		{"cryptoutil.NonceSliceToArray", func(in []byte) { _, _ = cryptoutil.NonceSliceToArray(in) }},
		{"openGroupEnvelope", func(in []byte) { _, _, _ = vOpenGroupEnvelope(g, in) }},
		{"SecretStore.OpenEnvelopeHeaders", func(in []byte) { _, _, _ = ss.OpenEnvelopeHeaders(in, g) }},
		{"SecretStore.OpenOutOfStoreMessage", func(in []byte) { _, _, _, _, _ = ss.OpenOutOfStoreMessage(context.Background(), in) }},
		{"cid.Cast", func(in []byte) { _, _ = cid.Cast(in) }},
		{"ShareableContact.CheckFormat", func(in []byte) {
			_ = (&protocoltypes.ShareableContact{Pk: in, PublicRendezvousSeed: in}).CheckFormat()
		}},
		{"Group.IsValid", func(in []byte) { _ = (&protocoltypes.Group{PublicKey: in, Secret: in, SecretSig: in}).IsValid() }},
	}
	for _, h := range helpers {
		reported := false
		for _, in := range inputs {
			var pan interface{}
			func() {
				defer func() { pan = recover() }()
				h.fn(in)
			}()
			rep.Eval(fmt.Sprintf("helper/%s/panic=%v", h.name, pan != nil))
			rep.AddTransitions(1)
			if pan != nil && !reported {
				reported = true
				rep.Violation("C19/helper-panics/"+h.name, fmt.Sprintf("%s panics on a %d-byte input %x: %v", h.name, len(in), in[:minInt(len(in), 16)], pan), map[string]interface{}{"helper": h.name, "input_hex": fmt.Sprintf("%x", in)})
			}
		}
	}
	rep.Sample(map[string]interface{}{"helpers": len(helpers), "inputs_per_helper": len(inputs)})
}

// c19OffCurveKey: 32 bytes that pass as an Ed25519 public key (only the length is checked when it is parsed) and do not
// encode a point of the curve (the conversion used for key agreement fails on it).
func c19OffCurveKey(skip int) []byte {
	for i := 2; i < 256; i++ {
		raw := make([]byte, 32)
		raw[0] = byte(i)
		pk, err := crypto.UnmarshalEd25519PublicKey(raw)
		if err != nil {
			continue
		}
		if _, err := cryptoutil.EdwardsToMontgomeryPub(pk); err != nil {
			if skip == 0 {
				return raw
			}
			skip--
		}
	}
	panic("HARNESS: no off-curve key found")
}
