//go:build verif

package weshnet

import (
	"bytes"
	"context"
	"fmt"
	"testing"

	"github.com/prometheus/client_golang/prometheus"
	"go.uber.org/zap"
	"golang.org/x/crypto/nacl/secretbox"
	"google.golang.org/protobuf/proto"

	ipfslog "berty.tech/go-ipfs-log"
	"berty.tech/go-ipfs-log/entry"
	"berty.tech/go-orbit-db/stores/operation"
	"berty.tech/weshnet/v2/internal/zzverif/vrep"
	"berty.tech/weshnet/v2/pkg/protocoltypes"
)

// TestVerifC01b: the message store never produces a GroupMessageEvent with other content or attribution than the
// sealed original, whatever envelope a log entry carries (second half of C01's observation points).
func TestVerifC01b(t *testing.T) {
	rep := vrep.New("C01")
	defer func() {
		if err := rep.Finish(); err != nil {
			t.Fatal(err)
		}
		if rep.NViolations() > 0 {
			t.Fail()
		}
	}()
	seed := vrep.Seed()
	ctx := context.Background()
	g := vDetGroup(seed, "G-c01b")
	og := vDetGroup(seed, "G-c01b-other")
	gpk, _ := g.GetPubKey()
	mkEntry := func(env []byte) ipfslog.Entry {
		opb, err := operation.NewOperation(nil, "ADD", env).Marshal()
		vmust(err)
		return &entry.Entry{Payload: opb, Hash: cidOfBytes(opb), LogID: "c01b"}
	}
	newReceiver := func() (*MessageStore, *[]interface{}) {
		rss := c08SecretStore(seed, "R", "1", 4)
		rmd, err := rss.GetOwnMemberDeviceForGroup(g)
		vmust(err)
		_, err = rss.GetShareableChainKey(ctx, g, rmd.Member())
		vmust(err)
		rdev, _ := rmd.Device().Raw()
		tracer := newMessageMetricsTracer(prometheus.NewRegistry())
		st := &MessageStore{secretStore: rss, messagesQueue: newMessageQueue("cache", tracer), group: g, groupPublicKey: gpk, logger: zap.NewNop(),
			deviceCaches: make(map[string]*groupCache), currentDevicePublicKey: rmd.Device(), currentDevicePublicKeyRaw: rdev}
		var emitted, cached []interface{}
		st.emitters.groupMessage = recEmitter{&emitted}
		st.emitters.groupCacheMessage = recEmitter{&cached}
		return st, &emitted
	}
	// senders S and F (a fellow member), two messages each; one message of S in another group
	type sender struct {
		name string
		envs [][]byte
		dev  []byte
	}
	var senders []*sender
	anns := map[string][]byte{}
	rprobe, _ := newReceiver()
	rmember := func() []byte { md, _ := rprobe.secretStore.GetOwnMemberDeviceForGroup(g); b, _ := md.Member().Raw(); return b }()
	_ = rmember
	for _, n := range []string{"S", "F"} {
		ss := c08SecretStore(seed, n, "1", 4)
		md, err := ss.GetOwnMemberDeviceForGroup(g)
		vmust(err)
		rmd, _ := rprobe.secretStore.GetOwnMemberDeviceForGroup(g)
		ann, err := ss.GetShareableChainKey(ctx, g, rmd.Member())
		vmust(err)
		anns[n] = ann
		sd := &sender{name: n}
		sd.dev, _ = md.Device().Raw()
		for i := 1; i <= 2; i++ {
			msg, _ := proto.Marshal(&protocoltypes.EncryptedMessage{Plaintext: []byte(fmt.Sprintf("%s-%d", n, i)), ProtocolMetadata: &protocoltypes.ProtocolMetadata{}})
			env, err := ss.SealEnvelope(ctx, g, msg)
			vmust(err)
			sd.envs = append(sd.envs, env)
		}
		if n == "S" {
			_, err = ss.GetShareableChainKey(ctx, og, rmd.Member())
			vmust(err)
			msg, _ := proto.Marshal(&protocoltypes.EncryptedMessage{Plaintext: []byte("other-group"), ProtocolMetadata: &protocoltypes.ProtocolMetadata{}})
			env, err := ss.SealEnvelope(ctx, og, msg)
			vmust(err)
			sd.envs = append(sd.envs, env)
		}
		senders = append(senders, sd)
	}
	register := func(st *MessageStore) {
		for _, sd := range senders {
			pk, err := cryptoUnmarshalEd(sd.dev)
			vmust(err)
			vmust(st.secretStore.RegisterChainKey(ctx, g, pk, anns[sd.name]))
		}
	}
	type result struct {
		ok      bool
		payload []byte
		dev     []byte
		counter uint64
	}
	open := func(st *MessageStore, env []byte) (res result, pan interface{}) {
		defer func() { pan = recover() }()
		ev, err := st.openMessage(ctx, mkEntry(env))
		if err != nil || ev == nil {
			return result{}, nil
		}
		return result{true, ev.Message, ev.Headers.DevicePk, ev.Headers.Counter}, nil
	}
	S := senders[0]
	// honest
	{
		st, _ := newReceiver()
		register(st)
		for si, sd := range senders {
			for i := 0; i < 2; i++ {
				r, pan := open(st, sd.envs[i])
				ok := pan == nil && r.ok && string(r.payload) == fmt.Sprintf("%s-%d", sd.name, i+1) && bytes.Equal(r.dev, sd.dev) && r.counter == uint64(i+1)
				rep.Eval(fmt.Sprintf("store/honest/ok=%v", ok))
				if !ok {
					rep.Violation("C01/store-honest", fmt.Sprintf("message store: honest message %d of sender %d not delivered as sealed: %+v %v", i+1, si, r, pan), nil)
				}
			}
		}
	}
	honest := result{true, []byte("S-1"), S.dev, 1}
	check := func(kind, detail string, env []byte) {
		st, _ := newReceiver()
		register(st)
		r, pan := open(st, env)
		for again := 0; again < 2 && pan == nil && !r.ok; again++ {
			if r2, p2 := open(st, env); p2 != nil || r2.ok {
				r, pan = r2, p2
				kind += "-on-reread"
			}
		}
		outcome := "rejected"
		if pan != nil {
			outcome = "panic"
		} else if r.ok {
			outcome = "delivered-identical"
			if !bytes.Equal(r.payload, honest.payload) || !bytes.Equal(r.dev, honest.dev) || r.counter != honest.counter {
				outcome = "delivered-different"
			}
		}
		rep.Eval("store/" + kind + "/" + outcome)
		if outcome == "panic" || outcome == "delivered-different" {
			rep.Violation("C01/store-"+kind+"/"+outcome, fmt.Sprintf("message store %s (%s): %+v %v", kind, detail, r, pan), map[string]string{"kind": kind, "detail": detail})
		}
	}
	// every single-bit flip of S's first envelope
	for bit := 0; bit < len(S.envs[0])*8; bit++ {
		m := append([]byte{}, S.envs[0]...)
		m[bit/8] ^= 1 << uint(bit%8)
		check("bitflip", fmt.Sprintf("bit=%d", bit), m)
	}
	// re-attribution: headers re-boxed under the group secret with device / counter / signature of other messages
	parse := func(b []byte) (*protocoltypes.MessageEnvelope, *protocoltypes.MessageHeaders) {
		env, h, err := rprobe.secretStore.OpenEnvelopeHeaders(b, g)
		vmust(err)
		return env, h
	}
	env0, h0 := parse(S.envs[0])
	var others []*protocoltypes.MessageHeaders
	for _, sd := range senders {
		for i := 0; i < 2; i++ {
			_, h := parse(sd.envs[i])
			others = append(others, h)
		}
	}
	rebox := func(h *protocoltypes.MessageHeaders, message []byte) []byte {
		hb, _ := proto.Marshal(h)
		var n [24]byte
		copy(n[:], env0.Nonce)
		b, _ := proto.Marshal(&protocoltypes.MessageEnvelope{MessageHeaders: secretbox.Seal(nil, hb, &n, g.GetSharedSecret()), Message: message, Nonce: n[:]})
		return b
	}
	for oi, oh := range others {
		for mask := 1; mask < 8; mask++ {
			h := proto.Clone(h0).(*protocoltypes.MessageHeaders)
			if mask&1 != 0 {
				h.DevicePk = oh.DevicePk
			}
			if mask&2 != 0 {
				h.Counter = oh.Counter
			}
			if mask&4 != 0 {
				h.Sig = oh.Sig
			}
			if proto.Equal(h, h0) {
				continue
			}
			check(fmt.Sprintf("reattribute-mask%d", mask), fmt.Sprintf("from message #%d", oi), rebox(h, env0.Message))
		}
	}
	// payload of another message under S-1's headers, and the envelope of another group
	for si, sd := range senders {
		for i := 0; i < 2; i++ {
			if si == 0 && i == 0 {
				continue
			}
			e2, _ := parse(sd.envs[i])
			check("substitute-message", fmt.Sprintf("payload of %s-%d", sd.name, i+1), rebox(h0, e2.Message))
		}
	}
	check("other-group", "S's message for another group", S.envs[2])
	check("empty", "", nil)
	check("garbage", "", []byte{0xff, 0x00, 0x12})
	rep.Sample(map[string]interface{}{"part": "message store", "envelope_bytes": len(S.envs[0]), "bitflips": len(S.envs[0]) * 8})
}
