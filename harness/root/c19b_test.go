//go:build verif

package weshnet

import (
	"bytes"
	"context"
	"fmt"
	"runtime"
	"testing"
	"time"

	"google.golang.org/protobuf/proto"

	"berty.tech/weshnet/v2/internal/zzverif/vrep"
	"berty.tech/weshnet/v2/pkg/protocoltypes"
)

// C19, invitation part: the fields of an invitation that its signature does not cover (signing public key, link
// key, link-key signature) carry odd lengths or junk, the secret and its signature are genuine, so the invitation is
// joined. Every request that then works on the joined group is issued; none may panic.
func TestVerifC19b(t *testing.T) {
	rep := vrep.New("C19")
	defer func() {
		if err := rep.Finish(); err != nil {
			t.Fatal(err)
		}
		if rep.NViolations() > 0 {
			t.Fail()
		}
	}()
	seed := vrep.Seed()
	ctx := context.Background()
	type variant struct {
		name string
		set  func(g *protocoltypes.Group)
	}
	sizes := []int{1, 31, 33, 64, 4096}
	var variants []variant
	variants = append(variants, variant{"plain", func(g *protocoltypes.Group) {}})
	for _, n := range sizes {
		n := n
		junk := bytes.Repeat([]byte{0xA5}, n)
		variants = append(variants,
			variant{fmt.Sprintf("link-key-%d", n), func(g *protocoltypes.Group) { g.LinkKey = junk }},
			variant{fmt.Sprintf("link-key-sig-%d", n), func(g *protocoltypes.Group) { g.LinkKeySig = junk }},
			variant{fmt.Sprintf("sign-pub-%d", n), func(g *protocoltypes.Group) { g.SignPub = junk }},
			variant{fmt.Sprintf("all-three-%d", n), func(g *protocoltypes.Group) { g.LinkKey, g.LinkKeySig, g.SignPub = junk, junk, junk }},
		)
	}
	variants = append(variants, variant{"link-key-32-junk", func(g *protocoltypes.Group) { g.LinkKey = bytes.Repeat([]byte{1}, 32) }},
		variant{"sign-pub-32-junk", func(g *protocoltypes.Group) { g.SignPub = bytes.Repeat([]byte{0xff}, 32) }})
	// invitations whose secret has another length than a key seed, correctly signed by the group key (anybody can
	// make one for a group key of their own): they verify, so they are joined
	for _, n := range []int{1, 5, 31, 33, 64} {
		n := n
		variants = append(variants, variant{fmt.Sprintf("signed-secret-%d", n), func(g *protocoltypes.Group) {
			gsk := vDetKey(seed, "group/odd-secret/"+fmt.Sprint(n))
			pk, _ := gsk.GetPublic().Raw()
			secret := bytes.Repeat([]byte{0x5A}, n)
			sig, err := gsk.Sign(secret)
			vmust(err)
			g.PublicKey, g.Secret, g.SecretSig = pk, secret, sig
		}})
	}
	tp, cleanup := NewTestingProtocol(ctx, t, nil, nil)
	defer cleanup()
	svc := tp.Service
	call := func(v variant, method string, fn func(ctx context.Context) error) {
		cctx, cancel := context.WithTimeout(ctx, 2*time.Second)
		defer cancel()
		var pan interface{}
		var stack string
		var err error
		done := make(chan struct{})
		go func() {
			defer close(done)
			defer func() {
				if r := recover(); r != nil {
					pan = r
					buf := make([]byte, 4096)
					stack = string(buf[:runtime.Stack(buf, false)])
				}
			}()
			err = fn(cctx)
		}()
		select {
		case <-done:
		case <-time.After(60 * time.Second):
			panic("HARNESS: " + method + " does not return within 60s of its context expiring")
		}
		rep.AddTransitions(1)
		rep.Eval(fmt.Sprintf("invitation/%s/%s/err=%v/panic=%v", classOf(v.name), method, err != nil, pan != nil))
		if pan != nil {
			rep.Violation("C19/panic/"+method+"@"+panicSite(stack), fmt.Sprintf("invitation variant '%s' (genuine secret and signature, so it is joined): %s panics: %v\n%s", v.name, method, pan, stack), map[string]interface{}{"variant": v.name, "method": method})
		}
	}
	for i, v := range variants {
		g := proto.Clone(vDetGroup(seed, fmt.Sprintf("c19b-%d", i))).(*protocoltypes.Group)
		v.set(g)
		pk := g.PublicKey
		call(v, "MultiMemberGroupJoin", func(c context.Context) error {
			_, err := svc.MultiMemberGroupJoin(c, &protocoltypes.MultiMemberGroupJoin_Request{Group: g})
			return err
		})
		call(v, "GroupInfo", func(c context.Context) error {
			_, err := svc.GroupInfo(c, &protocoltypes.GroupInfo_Request{GroupPk: pk})
			return err
		})
		call(v, "ActivateGroup", func(c context.Context) error {
			_, err := svc.ActivateGroup(c, &protocoltypes.ActivateGroup_Request{GroupPk: pk})
			return err
		})
		call(v, "AppMessageSend", func(c context.Context) error {
			_, err := svc.AppMessageSend(c, &protocoltypes.AppMessageSend_Request{GroupPk: pk, Payload: []byte("x")})
			return err
		})
		call(v, "AppMetadataSend", func(c context.Context) error {
			_, err := svc.AppMetadataSend(c, &protocoltypes.AppMetadataSend_Request{GroupPk: pk, Payload: []byte("x")})
			return err
		})
		call(v, "MultiMemberGroupInvitationCreate", func(c context.Context) error {
			_, err := svc.MultiMemberGroupInvitationCreate(c, &protocoltypes.MultiMemberGroupInvitationCreate_Request{GroupPk: pk})
			return err
		})
		call(v, "MultiMemberGroupAliasResolverDisclose", func(c context.Context) error {
			_, err := svc.MultiMemberGroupAliasResolverDisclose(c, &protocoltypes.MultiMemberGroupAliasResolverDisclose_Request{GroupPk: pk})
			return err
		})
		call(v, "GroupMetadataList", func(c context.Context) error {
			return svc.GroupMetadataList(&protocoltypes.GroupMetadataList_Request{GroupPk: pk, UntilNow: true}, &recStream[protocoltypes.GroupMetadataEvent]{ctx: c})
		})
		call(v, "GroupMessageList", func(c context.Context) error {
			return svc.GroupMessageList(&protocoltypes.GroupMessageList_Request{GroupPk: pk, UntilNow: true}, &recStream[protocoltypes.GroupMessageEvent]{ctx: c})
		})
		call(v, "DebugGroup", func(c context.Context) error {
			_, err := svc.DebugGroup(c, &protocoltypes.DebugGroup_Request{GroupPk: pk})
			return err
		})
		call(v, "DebugInspectGroupStore", func(c context.Context) error {
			return svc.DebugInspectGroupStore(&protocoltypes.DebugInspectGroupStore_Request{GroupPk: pk, LogType: protocoltypes.DebugInspectGroupLogType_DebugInspectGroupLogTypeMetadata}, &recStream[protocoltypes.DebugInspectGroupStore_Reply]{ctx: c})
		})
		call(v, "ReplicationServiceRegisterGroup", func(c context.Context) error {
			_, err := svc.ReplicationServiceRegisterGroup(c, &protocoltypes.ReplicationServiceRegisterGroup_Request{GroupPk: pk, Token: "t", AuthenticationUrl: "http://127.0.0.1:1/auth", ReplicationServer: "127.0.0.1:1"})
			return err
		})
		call(v, "ServiceExportData", func(c context.Context) error {
			return svc.ServiceExportData(&protocoltypes.ServiceExportData_Request{}, &recStream[protocoltypes.ServiceExportData_Reply]{ctx: c})
		})
		call(v, "DeactivateGroup", func(c context.Context) error {
			_, err := svc.DeactivateGroup(c, &protocoltypes.DeactivateGroup_Request{GroupPk: pk})
			return err
		})
		call(v, "ActivateGroup-again", func(c context.Context) error {
			_, err := svc.ActivateGroup(c, &protocoltypes.ActivateGroup_Request{GroupPk: pk})
			return err
		})
		call(v, "MultiMemberGroupLeave", func(c context.Context) error {
			_, err := svc.MultiMemberGroupLeave(c, &protocoltypes.MultiMemberGroupLeave_Request{GroupPk: pk})
			return err
		})
		call(v, "DeactivateGroup-after-leave", func(c context.Context) error {
			_, err := svc.DeactivateGroup(c, &protocoltypes.DeactivateGroup_Request{GroupPk: pk})
			return err
		})
	}
	rep.AddStates(int64(len(variants)))
	rep.Sample(map[string]interface{}{"part": "joined invitations with odd unauthenticated fields", "variants": len(variants), "requests_per_variant": 17})
}

func classOf(name string) string {
	for i := len(name) - 1; i >= 0; i-- {
		if name[i] == '-' {
			if _, err := fmt.Sscanf(name[i+1:], "%d", new(int)); err == nil {
				return name[:i]
			}
			break
		}
	}
	return name
}
