//go:build verif

package weshnet

import (
	"reflect"
	"context"
	"crypto/ed25519"
	"crypto/sha256"
	"encoding/hex"
	"fmt"
	"sort"
	"strings"
	"sync"
	"testing"
	"time"

	"github.com/ipfs/go-cid"
	"github.com/ipfs/go-datastore"
	dssync "github.com/ipfs/go-datastore/sync"
	"github.com/libp2p/go-libp2p/core/crypto"
	mocknet "github.com/libp2p/go-libp2p/p2p/net/mock"
	mh "github.com/multiformats/go-multihash"
	"go.uber.org/zap"
	"google.golang.org/protobuf/proto"

	ipfslog "berty.tech/go-ipfs-log"
	orbitdb "berty.tech/go-orbit-db"
	"berty.tech/go-orbit-db/iface"
	"berty.tech/go-orbit-db/stores"
	"berty.tech/go-orbit-db/stores/operation"
	"berty.tech/go-orbit-db/stores/replicator"
	"berty.tech/weshnet/v2/internal/datastoreutil"
	"berty.tech/weshnet/v2/pkg/ipfsutil"
	"berty.tech/weshnet/v2/pkg/protocoltypes"
	"berty.tech/weshnet/v2/pkg/secretstore"
	"berty.tech/weshnet/v2/pkg/tinder"
)

// vWorld is one offline mock IPFS node shared by several WeshOrbitDB instances ("devices"): the shared DAG stands
// for the network, entries move between replicas only when the harness delivers them.
type vWorld struct {
	t      testing.TB
	ctx    context.Context
	cancel context.CancelFunc
	mn     mocknet.Mocknet
	node   ipfsutil.CoreAPIMock
	seed   int64
	devs   []*vDevice
}

type vDevice struct {
	w    *vWorld
	name string
	ss   secretstore.SecretStore
	odb  *WeshOrbitDB
	ds   datastore.Batching
}

func vDetKey(seed int64, label string) crypto.PrivKey {
	h := sha256.Sum256([]byte(fmt.Sprintf("verif-key/%d/%s", seed, label)))
	std := ed25519.NewKeyFromSeed(h[:])
	sk, _, err := crypto.KeyPairFromStdKey(&std)
	if err != nil {
		panic(err)
	}
	return sk
}

func newVWorld(t testing.TB, seed int64) *vWorld {
	ctx, cancel := context.WithCancel(context.Background())
	mn := mocknet.New()
	node := ipfsutil.TestingCoreAPIUsingMockNet(ctx, t, &ipfsutil.TestingAPIOpts{Logger: zap.NewNop(), Mocknet: mn, DiscoveryServer: tinder.NewMockDriverServer()})
	return &vWorld{t: t, ctx: ctx, cancel: cancel, mn: mn, node: node, seed: seed}
}

func (w *vWorld) close() {
	for _, d := range w.devs {
		_ = d.odb.Close()
	}
	w.cancel()
	_ = w.mn.Close()
}

// newDevice creates device `dev` of account `acct` with deterministic account, proof and device keys.
func (w *vWorld) newDevice(acct, dev string) *vDevice {
	ds := dssync.MutexWrap(datastore.NewMapDatastore())
	ks := ipfsutil.NewDatastoreKeystore(datastoreutil.NewNamespacedDatastore(ds, datastore.NewKey("device_keystore")))
	vmust(ks.Put("accountSK", vDetKey(w.seed, "acct/"+acct)))
	vmust(ks.Put("accountProofSK", vDetKey(w.seed, "proof/"+acct)))
	vmust(ks.Put("deviceSK", vDetKey(w.seed, "dev/"+acct+"/"+dev)))
	ss, err := secretstore.NewSecretStore(ds, &secretstore.NewSecretStoreOptions{Keystore: ks})
	vmust(err)
	odb, err := NewWeshOrbitDB(w.ctx, w.node.API(), &NewOrbitDBOptions{
		NewOrbitDBOptions: orbitdb.NewOrbitDBOptions{Logger: zap.NewNop()},
		SecretStore:       ss,
		Datastore:         datastoreutil.NewNamespacedDatastore(ds, datastore.NewKey("odb-"+acct+dev)),
	})
	vmust(err)
	d := &vDevice{w: w, name: acct + dev, ss: ss, odb: odb, ds: ds}
	w.devs = append(w.devs, d)
	return d
}

func vmust(err error) {
	if err != nil {
		panic(err)
	}
}

var vFalse = false

var openMu sync.Mutex

// open opens a group without pub-sub replication (entries arrive only through deliver).
func (d *vDevice) open(g *protocoltypes.Group) *GroupContext {
	// several mock nodes live in one harness process; opening stores registers CBOR types in a process-wide table
	// of a dependency, which is not safe when two nodes do it at the same moment: one open at a time
	openMu.Lock()
	defer openMu.Unlock()
	gc, err := d.odb.OpenGroup(d.w.ctx, g, &orbitdb.CreateDBOptions{Replicate: &vFalse})
	vmust(err)
	return gc
}

func (d *vDevice) accountGroup() *protocoltypes.Group {
	g, _, err := d.ss.GetGroupForAccount()
	vmust(err)
	return g
}

// reopen closes the group context and opens the group again in the same WeshOrbitDB (real Load from the cache).
func (d *vDevice) reopen(gc *GroupContext) *GroupContext {
	g := gc.Group()
	_ = gc.Close()
	return d.open(g)
}

// entryHashes of a store's log, in Values() order.
func logHashes(s iface.Store) []cid.Cid {
	var out []cid.Cid
	for _, e := range s.OpLog().Values().Slice() {
		out = append(out, e.GetHash())
	}
	return out
}

// deliver hands the given entries to store `to` the way the replicator does: one single-entry log per hash
// (batchSize = 1), in the given order, then EventLoadEnd on the store's bus; waits for the EventReplicated answer.
func (w *vWorld) deliver(to iface.Store, hashes []cid.Cid) {
	if len(hashes) == 0 {
		return
	}
	sub, err := to.EventBus().Subscribe(new(stores.EventReplicated))
	vmust(err)
	defer sub.Close()
	one := 1
	var logs []ipfslog.Log
	for _, h := range hashes {
		l, err := ipfslog.NewFromEntryHash(w.ctx, to.IPFS(), to.Identity(), h, &ipfslog.LogOptions{
			ID: to.OpLog().GetID(), AccessController: to.AccessController(), SortFn: to.(interface{ SortFn() ipfslog.SortFn }).SortFn(), IO: to.IO(),
		}, &ipfslog.FetchOptions{Length: &one})
		vmust(err)
		logs = append(logs, l)
	}
	emitter, err := to.EventBus().Emitter(new(replicator.EventLoadEnd))
	vmust(err)
	vmust(emitter.Emit(replicator.NewEventLoadEnd(logs)))
	_ = emitter.Close()
	select {
	case <-sub.Out():
	case <-time.After(60 * time.Second):
		panic("HARNESS: no EventReplicated within 60s of an injected EventLoadEnd")
	}
}

// metaState is the observable state vector of a metadata store (C04): sorted, raw keys.
func metaState(ms *MetadataStore) string {
	var sb strings.Builder
	hx := func(b []byte) string {
		if len(b) > 6 {
			return hex.EncodeToString(b[:6])
		}
		return hex.EncodeToString(b)
	}
	var cs []string
	for k, c := range ms.ListContacts() {
		cs = append(cs, fmt.Sprintf("%s:%s seed=%s meta=%s", hx([]byte(k)), c.state, hx(c.contact.PublicRendezvousSeed), string(c.contact.Metadata)))
	}
	sort.Strings(cs)
	fmt.Fprintf(&sb, "contacts=%v\n", cs)
	pubs := func(ks []crypto.PubKey) []string {
		var out []string
		for _, k := range ks {
			b, _ := k.Raw()
			out = append(out, hx(b))
		}
		sort.Strings(out)
		return out
	}
	fmt.Fprintf(&sb, "members=%v\ndevices=%v\nadmins=%v\n", pubs(ms.ListMembers()), pubs(ms.ListDevices()), pubs(ms.ListAdmins()))
	// which devices belong to which member, and back
	var md []string
	for _, m := range ms.ListMembers() {
		mb, _ := m.Raw()
		ds, err := ms.GetDevicesForMember(m)
		md = append(md, fmt.Sprintf("%s->%v(err=%v)", hx(mb), pubs(ds), err != nil))
	}
	sort.Strings(md)
	var dm []string
	for _, d := range ms.ListDevices() {
		db, _ := d.Raw()
		m, err := ms.GetMemberByDevice(d)
		mb := []byte(nil)
		if m != nil {
			mb, _ = m.Raw()
		}
		dm = append(dm, fmt.Sprintf("%s->%s(err=%v)", hx(db), hx(mb), err != nil))
	}
	sort.Strings(dm)
	fmt.Fprintf(&sb, "member-devices=%v\ndevice-member=%v\n", md, dm)
	en, sc := ms.GetIncomingContactRequestsStatus()
	seed := ""
	if sc != nil {
		seed = hx(sc.PublicRendezvousSeed)
	}
	fmt.Fprintf(&sb, "contact-requests=%v seed=%s\n", en, seed)
	var gs []string
	for _, g := range ms.ListMultiMemberGroups() {
		gs = append(gs, hx(g.PublicKey))
	}
	sort.Strings(gs)
	fmt.Fprintf(&sb, "groups=%v\n", gs)
	var vc []string
	for _, c := range ms.ListVerifiedCredentials() {
		vc = append(vc, c.GetIdentifier()+"/"+c.GetIssuer())
	}
	sort.Strings(vc)
	fmt.Fprintf(&sb, "credentials=%v\n", vc)
	// alias-key disclosures of a contact group (index fields; no getter exists)
	if idx, ok := ms.Index().(*metadataStoreIndex); ok {
		idx.lock.RLock()
		fmt.Fprintf(&sb, "alias own-sent=%v other=%s\n", idx.ownAliasKeySent, hx(idx.otherAliasKey))
		idx.lock.RUnlock()
	}
	return sb.String()
}

func protoUnmarshal(b []byte, m proto.Message) error { return proto.Unmarshal(b, m) }

func cidOfBytes(data []byte) cid.Cid {
	sum, err := mh.Sum(data, mh.SHA2_256, -1)
	vmust(err)
	return cid.NewCidV1(cid.DagCBOR, sum)
}

func parseOp(e ipfslog.Entry) ([]byte, error) {
	op, err := operation.ParseOperation(e)
	if err != nil {
		return nil, err
	}
	return op.GetValue(), nil
}

func cryptoUnmarshalEd(b []byte) (crypto.PubKey, error) { return crypto.UnmarshalEd25519PublicKey(b) }

// metaStateOwn: the part of a metadata index that is told from the device's own point of view (to which members this
// device has announced its chain key); only comparable between states of the SAME device.
func metaStateOwn(ms *MetadataStore) string {
	idx, ok := ms.Index().(*metadataStoreIndex)
	if !ok {
		return ""
	}
	var out []string
	for _, m := range ms.ListMembers() {
		mb, _ := m.Raw()
		sent, err := idx.areSecretsAlreadySent(m)
		out = append(out, fmt.Sprintf("%s:sent=%v(err=%v)", hex.EncodeToString(mb[:6]), sent, err != nil))
	}
	sort.Strings(out)
	return fmt.Sprint(out)
}

// waitOwnAnnouncement waits until an activated group context has published the chain-key announcement for its own
// member (what it does, asynchronously, after it has seen its own device entry): from then on the service appends
// nothing more to the metadata log on its own. Gives up silently after a minute (the caller's comparison then says
// what is wrong).
func waitOwnAnnouncement(gc *GroupContext) {
	idx, ok := gc.MetadataStore().Index().(*metadataStoreIndex)
	if !ok {
		return
	}
	deadline := time.Now().Add(60 * time.Second)
	for time.Now().Before(deadline) {
		if sent, err := idx.areSecretsAlreadySent(gc.MemberPubKey()); err == nil && sent {
			return
		}
		time.Sleep(3 * time.Millisecond)
	}
}

// vCallPadded calls an internal function of the package by reflection, filling parameters the harness does not know
// (a refactoring of the tree under test may add trailing options) with `true` for booleans and zero values otherwise,
// so that such a refactoring is judged by the checks instead of breaking the build of the harness.
func vCallPadded(fn interface{}, args ...interface{}) []reflect.Value {
	f := reflect.ValueOf(fn)
	ft := f.Type()
	in := make([]reflect.Value, 0, ft.NumIn())
	for i := 0; i < ft.NumIn(); i++ {
		pt := ft.In(i)
		switch {
		case i < len(args) && args[i] != nil:
			in = append(in, reflect.ValueOf(args[i]))
		case i < len(args):
			in = append(in, reflect.Zero(pt))
		case pt.Kind() == reflect.Bool:
			in = append(in, reflect.ValueOf(true))
		default:
			in = append(in, reflect.Zero(pt))
		}
	}
	return f.Call(in)
}

func vErrOf(v reflect.Value) error {
	if v.IsNil() {
		return nil
	}
	return v.Interface().(error)
}

func vOpenGroupEnvelope(g *protocoltypes.Group, b []byte) (*protocoltypes.GroupMetadata, proto.Message, error) {
	out := vCallPadded(openGroupEnvelope, g, b)
	meta, _ := out[0].Interface().(*protocoltypes.GroupMetadata)
	msg, _ := out[1].Interface().(proto.Message)
	return meta, msg, vErrOf(out[2])
}

func vOpenMetadataEntry(log ipfslog.Log, e ipfslog.Entry, g *protocoltypes.Group) (*protocoltypes.GroupMetadataEvent, proto.Message, error) {
	out := vCallPadded(openMetadataEntry, log, e, g)
	ev, _ := out[0].Interface().(*protocoltypes.GroupMetadataEvent)
	msg, _ := out[1].Interface().(proto.Message)
	return ev, msg, vErrOf(out[2])
}
