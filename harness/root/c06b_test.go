//go:build verif

package weshnet

import (
	"context"
	"fmt"
	"io"
	"net"
	"testing"
	"time"

	"github.com/libp2p/go-libp2p/core/network"
	"go.uber.org/zap"
	"google.golang.org/protobuf/proto"

	"berty.tech/weshnet/v2/internal/handshake"
	"berty.tech/weshnet/v2/internal/zzverif/vrep"
	"berty.tech/weshnet/v2/pkg/protocoltypes"
	"berty.tech/weshnet/v2/pkg/protoio"
)

// pipeStream is a network.Stream whose only working parts are Read/Write/Close (all the contact-request manager uses).
type pipeStream struct {
	network.Stream
	c net.Conn
}

func (p *pipeStream) Read(b []byte) (int, error)  { return p.c.Read(b) }
func (p *pipeStream) Write(b []byte) (int, error) { return p.c.Write(b) }
func (p *pipeStream) Close() error                { return p.c.Close() }

// TestVerifC06b: the contact announced after the handshake must be the authenticated account; only then is an
// incoming-request event appended.
// coalesceConn delivers what its user writes back to back as ONE segment: writes are held until the user reads
// (it waits for the peer) or closes - the way a stream multiplexer or the network coalesces small writes.
type coalesceConn struct {
	net.Conn
	buf []byte
}

func (c *coalesceConn) flush() {
	if len(c.buf) > 0 {
		_, _ = c.Conn.Write(c.buf)
		c.buf = nil
	}
}
func (c *coalesceConn) Write(b []byte) (int, error) { c.buf = append(c.buf, b...); return len(b), nil }
func (c *coalesceConn) Read(b []byte) (int, error)  { c.flush(); return c.Conn.Read(b) }
func (c *coalesceConn) Close() error                { c.flush(); return c.Conn.Close() }

func TestVerifC06b(t *testing.T) {
	rep := vrep.New("C06")
	defer func() {
		if err := rep.Finish(); err != nil {
			t.Fatal(err)
		}
		if rep.NViolations() > 0 {
			t.Fail()
		}
	}()
	seed := vrep.Seed()
	w := newVWorld(t, seed)
	defer w.close()
	seedOK := []byte("seed-1-seed-1-seed-1-seed-1-seed")
	type peerCase struct {
		name      string
		requester string // account that runs the (honest) handshake
		announce  func(self, victim []byte) *protocoltypes.ShareableContact
		expect    string // "" = nothing appended, else the account whose request must be recorded
	}
	cases := []peerCase{
		{"honest", "A", func(self, v []byte) *protocoltypes.ShareableContact {
			return &protocoltypes.ShareableContact{Pk: self, PublicRendezvousSeed: seedOK, Metadata: []byte("hi")}
		}, "A"},
		{"honest-without-seed", "A", func(self, v []byte) *protocoltypes.ShareableContact {
			return &protocoltypes.ShareableContact{Pk: self}
		}, "A"},
		{"announces-another-account", "M", func(self, v []byte) *protocoltypes.ShareableContact {
			return &protocoltypes.ShareableContact{Pk: v, PublicRendezvousSeed: seedOK}
		}, ""},
		{"announces-empty-key", "M", func(self, v []byte) *protocoltypes.ShareableContact {
			return &protocoltypes.ShareableContact{PublicRendezvousSeed: seedOK}
		}, ""},
		{"announces-own-key-with-bad-seed", "M", func(self, v []byte) *protocoltypes.ShareableContact {
			return &protocoltypes.ShareableContact{Pk: self, PublicRendezvousSeed: seedOK[:31]}
		}, ""},
		{"announces-key-with-suffix", "M", func(self, v []byte) *protocoltypes.ShareableContact {
			return &protocoltypes.ShareableContact{Pk: append(append([]byte{}, self...), 0), PublicRendezvousSeed: seedOK}
		}, ""},
		{"announces-nothing", "M", nil, ""},
		{"announces-garbage", "M", func(self, v []byte) *protocoltypes.ShareableContact { return nil }, ""},
	}
	victimPK, _ := vDetKey(seed, "acct/A").GetPublic().Raw()
	ncases := len(cases)
	cases = append(cases, cases...) // second half: the requester's last handshake frame and its contact arrive as one segment
	for ci, pc := range cases {
		coalesce := ci >= ncases
		if coalesce {
			pc.name += "/one-segment"
		}
		// responder: a fresh device of account B with its account group (no activation needed)
		dB := w.newDevice("B", fmt.Sprintf("r%d", ci))
		gc := dB.open(dB.accountGroup())
		bSK, err := dB.ss.GetAccountPrivateKey()
		vmust(err)
		mgr := &contactRequestsManager{logger: zap.NewNop(), accountPrivateKey: bSK, metadataStore: gc.MetadataStore(), lookupProcess: map[string]context.CancelFunc{}}
		c1, c2raw := net.Pipe()
		var c2 net.Conn = c2raw
		if coalesce {
			c2 = &coalesceConn{Conn: c2raw}
		}
		reqSK := vDetKey(seed, "acct/"+pc.requester)
		selfPK, _ := reqSK.GetPublic().Raw()
		done := make(chan error, 1)
		go func() {
			reader := protoio.NewDelimitedReader(c2, 2048)
			writer := protoio.NewDelimitedWriter(c2)
			if err := handshake.RequestUsingReaderWriter(context.Background(), zap.NewNop(), reader, writer, reqSK, bSK.GetPublic()); err != nil {
				done <- err
				_ = c2.Close()
				return
			}
			if pc.announce != nil {
				sc := pc.announce(selfPK, victimPK)
				if sc == nil {
					_, _ = c2.Write([]byte{0x05, 0xff, 0xff, 0xff, 0xff, 0xff})
				} else {
					_ = writer.WriteMsg(sc)
				}
			}
			_ = c2.Close()
			done <- nil
		}()
		before := gc.MetadataStore().OpLog().Len()
		ctx, cancel := context.WithTimeout(context.Background(), 30*time.Second)
		herr := mgr.handleIncomingRequest(ctx, &pipeStream{c: c1})
		cancel()
		_ = c1.Close()
		<-done
		after := gc.MetadataStore().OpLog().Len()
		recorded := ""
		for k, c := range gc.MetadataStore().ListContacts() {
			if c.state == protocoltypes.ContactState_ContactStateReceived {
				switch k {
				case string(victimPK):
					recorded = "A"
				case string(selfPK):
					recorded = pc.requester
				default:
					recorded = "other"
				}
			}
		}
		rep.Eval(fmt.Sprintf("incoming-request/%s/err=%v/appended=%d/recorded=%s", pc.name, herr != nil, after-before, recorded))
		rep.AddTransitions(1)
		if recorded != pc.expect || (pc.expect == "" && after != before) || (pc.expect != "" && (herr != nil || after != before+1)) {
			rep.Violation("C06/incoming-request/"+pc.name, fmt.Sprintf("authenticated requester %s, case %s: handler error %v, %d entries appended, incoming request recorded for %q (expected %q)", pc.requester, pc.name, herr, after-before, recorded, pc.expect), map[string]string{"case": pc.name})
		}
		_ = gc.Close()
	}
	rep.AddStates(int64(len(cases)))
	rep.Sample(map[string]interface{}{"part": "incoming request after the handshake", "cases": len(cases)})
	_ = io.EOF
	_ = proto.Marshal
}
