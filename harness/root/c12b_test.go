//go:build verif

package weshnet

import (
	"bytes"
	"context"
	"fmt"
	"testing"

	"berty.tech/weshnet/v2/internal/zzverif/vrep"
	"berty.tech/weshnet/v2/pkg/protocoltypes"
)

// C12, service part: the whole catalogue of altered invitations goes through the service's MultiMemberGroupJoin.
// A refused invitation leaves no trace: the group is not known to the service afterwards, and when the genuine
// invitation for the same group is accepted later, the service knows the group exactly as the genuine invitation
// describes it and acts in it under group-specific keys.
func TestVerifC12b(t *testing.T) {
	rep := vrep.New("C12")
	defer func() {
		if err := rep.Finish(); err != nil {
			t.Fatal(err)
		}
		if rep.NViolations() > 0 {
			t.Fail()
		}
	}()
	seed := vrep.Seed()
	ctx := context.Background()
	tp, cleanup := NewTestingProtocol(ctx, t, nil, nil)
	defer cleanup()
	svc := tp.Service
	cfg, err := svc.ServiceGetConfiguration(ctx, &protocoltypes.ServiceGetConfiguration_Request{})
	vmust(err)
	known := func(pk []byte) (*protocoltypes.GroupInfo_Reply, bool) {
		var r *protocoltypes.GroupInfo_Reply
		var gerr error
		func() {
			defer func() {
				if p := recover(); p != nil {
					gerr = fmt.Errorf("PANIC %v", p)
				}
			}()
			r, gerr = svc.GroupInfo(ctx, &protocoltypes.GroupInfo_Request{GroupPk: pk})
		}()
		return r, gerr == nil && r != nil && r.Group != nil
	}
	for _, label := range []string{"inv-1", "inv-2"} {
		inv := vDetGroup(seed, "c12b-"+label)
		muts := c12Mutations(seed, inv)
		refusedWithTrace := 0
		for _, m := range muts {
			var jerr error
			func() {
				defer func() {
					if p := recover(); p != nil {
						jerr = nil
						rep.Violation("C12/join-panics", fmt.Sprintf("service join of invitation %s, %s: %v", label, m.name, p), c12Case{label, m.name})
					}
				}()
				_, jerr = svc.MultiMemberGroupJoin(ctx, &protocoltypes.MultiMemberGroupJoin_Request{Group: m.g})
			}()
			rep.AddTransitions(1)
			if jerr == nil {
				rep.Eval(fmt.Sprintf("service/%s/refused=false", m.name))
				rep.Violation("C12/altered-invitation-accepted/"+m.name, fmt.Sprintf("service MultiMemberGroupJoin accepts invitation %s with mutation '%s'", label, m.name), c12Case{label, m.name})
				_, _ = svc.MultiMemberGroupLeave(ctx, &protocoltypes.MultiMemberGroupLeave_Request{GroupPk: m.g.PublicKey})
				continue
			}
			// refused: neither the identifier in the altered invitation nor the genuine one is known now
			_, k1 := known(m.g.PublicKey)
			_, k2 := known(inv.PublicKey)
			rep.Eval(fmt.Sprintf("service/%s/refused=true/group-known-afterwards=%v", m.name, k1 || k2))
			if k1 || k2 {
				refusedWithTrace++
				if refusedWithTrace == 1 {
					rep.Violation("C12/refused-invitation-leaves-a-trace", fmt.Sprintf("invitation %s with mutation '%s' is refused by MultiMemberGroupJoin, yet GroupInfo knows the group afterwards: what an unauthenticated invitation claims is kept", label, m.name), c12Case{label, m.name})
				}
			}
		}
		// the genuine invitation, after all the refused ones
		_, jerr := svc.MultiMemberGroupJoin(ctx, &protocoltypes.MultiMemberGroupJoin_Request{Group: inv})
		rep.Eval(fmt.Sprintf("service/valid/accepted=%v", jerr == nil))
		if jerr != nil {
			rep.Violation("C12/valid-invitation-refused", fmt.Sprintf("service join of the genuine invitation %s: %v", label, jerr), c12Case{label, "valid"})
			continue
		}
		gi, ok := known(inv.PublicKey)
		if !ok {
			rep.Violation("C12/joined-group-unknown", fmt.Sprintf("GroupInfo does not know group %s after the genuine invitation was accepted", label), c12Case{label, "valid"})
			continue
		}
		same := bytes.Equal(gi.Group.PublicKey, inv.PublicKey) && bytes.Equal(gi.Group.Secret, inv.Secret) && bytes.Equal(gi.Group.SecretSig, inv.SecretSig) && gi.Group.GroupType == protocoltypes.GroupType_GroupTypeMultiMember
		ownKeys := !bytes.Equal(gi.MemberPk, cfg.AccountPk) && !bytes.Equal(gi.DevicePk, cfg.DevicePk) && !bytes.Equal(gi.MemberPk, cfg.DevicePk) && !bytes.Equal(gi.DevicePk, cfg.AccountPk)
		rep.Eval(fmt.Sprintf("service/valid/group-as-invited=%v/group-specific-keys=%v", same, ownKeys))
		if !same {
			rep.Violation("C12/joined-group-differs-from-invitation", fmt.Sprintf("after refused altered invitations and the genuine one for %s, the service holds the group with type %v (secret equal: %v): an altered invitation that was refused decides how the group is used", label, gi.Group.GroupType, bytes.Equal(gi.Group.Secret, inv.Secret)), c12Case{label, "valid-after-refused"})
		}
		if !ownKeys {
			rep.Violation("C12/acts-under-account-identity", fmt.Sprintf("in group %s joined through the service the member/device keys are account-level keys", label), c12Case{label, "identity"})
		}
		if _, err := svc.ActivateGroup(ctx, &protocoltypes.ActivateGroup_Request{GroupPk: inv.PublicKey}); err != nil {
			rep.Violation("C12/joined-group-cannot-be-activated", fmt.Sprintf("group %s: %v", label, err), c12Case{label, "activate"})
		}
		// with the group joined and open, the altered invitations for it are still refused (type, secret and
		// signature alterations keep the identifier: the service must not answer from what it already holds)
		reaccepted := 0
		for _, m := range muts {
			if !bytes.Equal(m.g.PublicKey, inv.PublicKey) {
				continue
			}
			_, jerr := svc.MultiMemberGroupJoin(ctx, &protocoltypes.MultiMemberGroupJoin_Request{Group: m.g})
			rep.AddTransitions(1)
			rep.Eval(fmt.Sprintf("service-open-group/%s/refused=%v", m.name, jerr != nil))
			if jerr == nil {
				reaccepted++
				if reaccepted == 1 {
					rep.Violation("C12/altered-invitation-accepted/"+m.name, fmt.Sprintf("invitation %s with mutation '%s' is answered with success by MultiMemberGroupJoin once the group is joined and open", label, m.name), c12Case{label, m.name + " (group open)"})
				}
			}
		}
		rep.AddStates(1)
		rep.Sample(map[string]interface{}{"part": "service", "invitation": label, "mutations": len(muts)})
	}
}
