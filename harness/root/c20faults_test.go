//go:build verif

package weshnet

import (
	"archive/tar"
	"bytes"
	"context"
	"fmt"
	"io"
	"sync/atomic"
	"testing"

	"github.com/ipfs/go-datastore"
	dsq "github.com/ipfs/go-datastore/query"
	dsync "github.com/ipfs/go-datastore/sync"

	"berty.tech/weshnet/v2/internal/zzverif/vrep"
	"berty.tech/weshnet/v2/pkg/protocoltypes"
)

// faultDS wraps the node's datastore: while armed, the n-th read (Get/Has/GetSize/Query) fails once.
type faultDS struct {
	datastore.Batching
	armed   int32
	count   int64
	failAt  int64 // -1: only count
	failed  int32
	lastKey atomic.Value
}

func (f *faultDS) tick(key string) error {
	if atomic.LoadInt32(&f.armed) == 0 {
		return nil
	}
	n := atomic.AddInt64(&f.count, 1) - 1
	if n == atomic.LoadInt64(&f.failAt) {
		atomic.StoreInt32(&f.failed, 1)
		f.lastKey.Store(key)
		return fmt.Errorf("injected: storage read fault")
	}
	return nil
}

func (f *faultDS) Get(ctx context.Context, k datastore.Key) ([]byte, error) {
	if err := f.tick(k.String()); err != nil {
		return nil, err
	}
	return f.Batching.Get(ctx, k)
}

func (f *faultDS) Has(ctx context.Context, k datastore.Key) (bool, error) {
	if err := f.tick(k.String()); err != nil {
		return false, err
	}
	return f.Batching.Has(ctx, k)
}

func (f *faultDS) GetSize(ctx context.Context, k datastore.Key) (int, error) {
	if err := f.tick(k.String()); err != nil {
		return -1, err
	}
	return f.Batching.GetSize(ctx, k)
}

func (f *faultDS) Query(ctx context.Context, q dsq.Query) (dsq.Results, error) {
	if err := f.tick("query " + q.Prefix); err != nil {
		return nil, err
	}
	return f.Batching.Query(ctx, q)
}

func tarEntries(b []byte) (map[string]string, error) {
	out := map[string]string{}
	tr := tar.NewReader(bytes.NewReader(b))
	for {
		h, err := tr.Next()
		if err == io.EOF {
			return out, nil
		}
		if err != nil {
			return out, err
		}
		data, err := io.ReadAll(tr)
		if err != nil {
			return out, err
		}
		out[h.Name] = string(data)
	}
}

// TestVerifC20Faults: the export RPC while the node's storage has one transient read fault. For every read the
// export performs on the node's datastore, that one read fails. Whenever the RPC reports success, the archive it
// streamed must be the complete one (what a fault-free export produces): a silently truncated archive restores to
// another account state.
func TestVerifC20Faults(t *testing.T) {
	rep := vrep.New("C20")
	defer func() {
		if err := rep.Finish(); err != nil {
			t.Fatal(err)
		}
		if rep.NViolations() > 0 {
			t.Fail()
		}
	}()
	seed := vrep.Seed()
	ctx := context.Background()
	fds := &faultDS{Batching: dsync.MutexWrap(datastore.NewMapDatastore()), failAt: -1}
	tp, cleanup := NewTestingProtocol(ctx, t, nil, fds)
	defer cleanup()
	svc := tp.Service.(*service)
	g1 := vDetGroup(seed, "c20f-G1")
	xpk, _ := vDetKey(seed, "acct/X").GetPublic().Raw()
	cfg, err := tp.Service.ServiceGetConfiguration(ctx, &protocoltypes.ServiceGetConfiguration_Request{})
	vmust(err)
	_, err = tp.Service.ContactRequestSend(ctx, &protocoltypes.ContactRequestSend_Request{Contact: &protocoltypes.ShareableContact{Pk: xpk, PublicRendezvousSeed: []byte("seed-1-seed-1-seed-1-seed-1-seed"), Metadata: []byte("m")}})
	vmust(err)
	_, err = tp.Service.MultiMemberGroupJoin(ctx, &protocoltypes.MultiMemberGroupJoin_Request{Group: g1})
	vmust(err)
	_, err = tp.Service.ActivateGroup(ctx, &protocoltypes.ActivateGroup_Request{GroupPk: g1.PublicKey})
	vmust(err)
	for i := 0; i < 2; i++ {
		_, err = tp.Service.AppMessageSend(ctx, &protocoltypes.AppMessageSend_Request{GroupPk: g1.PublicKey, Payload: []byte("group message")})
		vmust(err)
		_, err = tp.Service.AppMessageSend(ctx, &protocoltypes.AppMessageSend_Request{GroupPk: cfg.AccountGroupPk, Payload: []byte("account message")})
		vmust(err)
	}
	export := func() ([]byte, error) {
		st := &recStream[protocoltypes.ServiceExportData_Reply]{ctx: ctx}
		var rerr error
		func() {
			defer func() {
				if p := recover(); p != nil {
					rerr = fmt.Errorf("PANIC %v", p)
					rep.Violation("C20/export-panics", fmt.Sprint(p), nil)
				}
			}()
			rerr = svc.ServiceExportData(&protocoltypes.ServiceExportData_Request{}, st)
		}()
		var buf bytes.Buffer
		for _, m := range st.all() {
			buf.Write(m.ExportedData)
		}
		return buf.Bytes(), rerr
	}
	// fault-free: the RPC streams what the export function writes
	clean, err := export()
	vmust(err)
	var direct bytes.Buffer
	vmust(svc.export(ctx, &direct))
	want, err := tarEntries(clean)
	vmust(err)
	dwant, err := tarEntries(direct.Bytes())
	vmust(err)
	if fmt.Sprint(len(want)) != fmt.Sprint(len(dwant)) {
		rep.Violation("C20/export-rpc-differs-from-export", fmt.Sprintf("RPC archive has %d entries, direct export %d", len(want), len(dwant)), nil)
	}
	// count the reads of one export
	atomic.StoreInt64(&fds.count, 0)
	atomic.StoreInt64(&fds.failAt, -1)
	atomic.StoreInt32(&fds.armed, 1)
	_, err = export()
	atomic.StoreInt32(&fds.armed, 0)
	vmust(err)
	n := atomic.LoadInt64(&fds.count)
	rep.Set("export_datastore_reads", n)
	for i := int64(0); i < n; i++ {
		atomic.StoreInt64(&fds.count, 0)
		atomic.StoreInt32(&fds.failed, 0)
		atomic.StoreInt64(&fds.failAt, i)
		atomic.StoreInt32(&fds.armed, 1)
		arch, rerr := export()
		atomic.StoreInt32(&fds.armed, 0)
		rep.AddTransitions(1)
		if atomic.LoadInt32(&fds.failed) == 0 {
			rep.Eval("export-fault/not-reached")
			continue
		}
		key, _ := fds.lastKey.Load().(string)
		if rerr != nil {
			rep.Eval("export-fault/reported")
			continue
		}
		got, terr := tarEntries(arch)
		complete := terr == nil && len(got) == len(want)
		if complete {
			for k, v := range want {
				if got[k] != v {
					complete = false
				}
			}
		}
		rep.Eval(fmt.Sprintf("export-fault/success-reported/archive-complete=%v", complete))
		if !complete {
			rep.Violation("C20/export-succeeds-with-incomplete-archive", fmt.Sprintf("read %d of %d of the export (%s) fails once: ServiceExportData reports success and streams an archive with %d of %d entries (tar error: %v); restoring it yields another account state", i, n, key, len(got), len(want), terr), map[string]interface{}{"fault_at": i, "key": key})
			break
		}
	}
	rep.AddStates(1)
	rep.Sample(map[string]interface{}{"part": "export RPC under one storage read fault", "reads_per_export": n, "archive_entries": len(want)})
}
