//go:build verif

package weshnet

import (
	"fmt"
	"google.golang.org/protobuf/encoding/protowire"
	"math"
	"sort"
	"strings"
	"testing"
	"time"

	"github.com/libp2p/go-libp2p/core/crypto"
	"golang.org/x/crypto/nacl/secretbox"
	"google.golang.org/protobuf/proto"
	"google.golang.org/protobuf/reflect/protoreflect"

	"berty.tech/go-orbit-db/stores/operation"
	"berty.tech/weshnet/v2/internal/zzverif/vrep"
	"berty.tech/weshnet/v2/pkg/cryptoutil"
	"berty.tech/weshnet/v2/pkg/protocoltypes"
	"berty.tech/weshnet/v2/pkg/secretstore"
)

type c03Signer struct {
	md  secretstore.OwnMemberDevice
	dev []byte
	mem []byte
}

func newC03Signer(d *vDevice, g *protocoltypes.Group) *c03Signer {
	md, err := d.ss.GetOwnMemberDeviceForGroup(g)
	vmust(err)
	dev, _ := md.Device().Raw()
	mem, _ := md.Member().Raw()
	return &c03Signer{md: md, dev: dev, mem: mem}
}

// honestPayload fills a payload of the given event type the way the protocol does, for signer s.
func honestPayload(seed int64, et protocoltypes.EventType, s *c03Signer) proto.Message {
	msg := proto.Clone(eventTypesMapper[et].Message)
	r := msg.ProtoReflect()
	fields := r.Descriptor().Fields()
	for i := 0; i < fields.Len(); i++ {
		f := fields.Get(i)
		switch f.Kind() {
		case protoreflect.BytesKind:
			var v []byte
			switch string(f.Name()) {
			case "device_pk":
				v = s.dev
			case "member_pk":
				if et == protocoltypes.EventType_EventTypeMultiMemberGroupInitialMemberAnnounced {
					v = s.dev
				} else {
					v = s.mem
				}
			case "member_sig":
				sig, err := s.md.MemberSign(s.dev)
				vmust(err)
				v = sig
			case "public_rendezvous_seed", "contact_rendezvous_seed":
				v = []byte("seed-1-seed-1-seed-1-seed-1-seed")
			default:
				k, _ := vDetKey(seed, "c03/"+string(f.Name())).GetPublic().Raw()
				v = k
			}
			r.Set(f, protoreflect.ValueOfBytes(v))
		case protoreflect.StringKind:
			r.Set(f, protoreflect.ValueOfString("s-"+string(f.Name())))
		case protoreflect.Int64Kind, protoreflect.Uint64Kind:
			if f.Kind() == protoreflect.Int64Kind {
				r.Set(f, protoreflect.ValueOfInt64(1))
			} else {
				r.Set(f, protoreflect.ValueOfUint64(1))
			}
		case protoreflect.MessageKind:
			switch string(f.Message().Name()) {
			case "Group":
				r.Set(f, protoreflect.ValueOfMessage(vDetGroup(seed, "c03-joined").ProtoReflect()))
			case "ShareableContact":
				pk, _ := vDetKey(seed, "acct/X").GetPublic().Raw()
				r.Set(f, protoreflect.ValueOfMessage((&protocoltypes.ShareableContact{Pk: pk, PublicRendezvousSeed: []byte("seed-1-seed-1-seed-1-seed-1-seed"), Metadata: []byte("m")}).ProtoReflect()))
			}
		}
	}
	return msg
}

// sealRaw seals an arbitrary GroupMetadata under a group secret (what any holder of the secret can do).
func sealRaw(secret *[32]byte, et protocoltypes.EventType, payload []byte, sig []byte) []byte {
	nonce, err := cryptoutil.GenerateNonce()
	vmust(err)
	clear, err := proto.Marshal(&protocoltypes.GroupMetadata{EventType: et, Payload: payload, Sig: sig, ProtocolMetadata: &protocoltypes.ProtocolMetadata{}})
	vmust(err)
	env, err := proto.Marshal(&protocoltypes.GroupEnvelope{Event: secretbox.Seal(nil, clear, nonce, secret), Nonce: nonce[:]})
	vmust(err)
	return env
}

type forgery struct {
	name     string
	env      []byte
	mustFail bool
}

func setBytesField(m proto.Message, name string, v []byte) bool {
	r := m.ProtoReflect()
	f := r.Descriptor().Fields().ByName(protoreflect.Name(name))
	if f == nil {
		return false
	}
	r.Set(f, protoreflect.ValueOfBytes(v))
	return true
}

// forgeries builds the catalogue for one event type. signer is the honest device; other is another member's
// device (a legitimate member of the group, so it holds the group secret).
func forgeries(seed int64, g *protocoltypes.Group, gsk crypto.PrivKey, et protocoltypes.EventType, signer, other *c03Signer, flips bool) (honest []byte, out []forgery) {
	msg := honestPayload(seed, et, signer)
	payload, err := proto.Marshal(msg)
	vmust(err)
	groupSigned := et == protocoltypes.EventType_EventTypeMultiMemberGroupInitialMemberAnnounced
	var goodSig []byte
	if groupSigned {
		goodSig, err = gsk.Sign(payload)
	} else {
		goodSig, err = signer.md.DeviceSign(payload)
	}
	vmust(err)
	secret := g.GetSharedSecret()
	honest = sealRaw(secret, et, payload, goodSig)
	add := func(name string, et2 protocoltypes.EventType, p, sig []byte) {
		out = append(out, forgery{name: name, env: sealRaw(secret, et2, p, sig), mustFail: true})
	}
	otherDevSig, _ := other.md.DeviceSign(payload)
	add("signed-by-another-device", et, payload, otherDevSig)
	memberSig, _ := signer.md.MemberSign(payload)
	// (a forgery only when the member key is not the key required for this type: in an account group the group key
	// is the account key, which is also the member key)
	if string(signer.mem) != string(signer.dev) && !(groupSigned && string(signer.mem) == string(g.PublicKey)) {
		add("signed-by-the-member-key", et, payload, memberSig)
	}
	groupSig, _ := gsk.Sign(payload)
	if !groupSigned {
		add("signed-by-the-group-key", et, payload, groupSig)
	} else {
		devSig, _ := signer.md.DeviceSign(payload)
		add("signed-by-the-device-key", et, payload, devSig)
	}
	// signer field substituted after signing
	{
		m2 := proto.Clone(msg)
		if setBytesField(m2, "device_pk", other.dev) {
			p2, _ := proto.Marshal(m2)
			add("device-field-substituted-after-signing", et, p2, goodSig)
		}
		if groupSigned {
			m3 := proto.Clone(msg)
			setBytesField(m3, "member_pk", other.dev)
			p3, _ := proto.Marshal(m3)
			add("member-field-substituted-after-signing", et, p3, goodSig)
		}
	}
	// payload bytes altered after signing in a way that decodes to the SAME message: the signed bytes preceded by an
	// extra occurrence of the signer field naming another key (for a repeated scalar field the last occurrence wins).
	// The signature is over the bytes that were delivered, so this is a forgery.
	if m := msg.ProtoReflect(); m.Descriptor().Fields().ByName("device_pk") != nil {
		fd := m.Descriptor().Fields().ByName("device_pk")
		prefix := protowire.AppendTag(nil, fd.Number(), protowire.BytesType)
		prefix = protowire.AppendBytes(prefix, other.dev)
		add("payload-prefixed-with-overridden-signer-field", et, append(prefix, payload...), goodSig)
	}
	if et == protocoltypes.EventType_EventTypeGroupMemberDeviceAdded {
		// member signature over another device key, device signature valid
		m2 := proto.Clone(msg).(*protocoltypes.GroupMemberDeviceAdded)
		m2.MemberSig, _ = signer.md.MemberSign(other.dev)
		p2, _ := proto.Marshal(m2)
		s2, _ := signer.md.DeviceSign(p2)
		add("member-signature-over-another-device", et, p2, s2)
		if string(other.mem) != string(signer.mem) { // (two devices of one account share the member key)
			// device signature valid, member signature by another member
			m3 := proto.Clone(msg).(*protocoltypes.GroupMemberDeviceAdded)
			m3.MemberSig, _ = other.md.MemberSign(signer.dev)
			p3, _ := proto.Marshal(m3)
			s3, _ := signer.md.DeviceSign(p3)
			add("member-signature-by-another-member", et, p3, s3)
			// claimed member substituted (device and signatures of the honest signer)
			m4 := proto.Clone(msg).(*protocoltypes.GroupMemberDeviceAdded)
			m4.MemberPk = other.mem
			p4, _ := proto.Marshal(m4)
			s4, _ := signer.md.DeviceSign(p4)
			add("claimed-member-substituted", et, p4, s4)
		}
		// missing member signature
		m5 := proto.Clone(msg).(*protocoltypes.GroupMemberDeviceAdded)
		m5.MemberSig = nil
		p5, _ := proto.Marshal(m5)
		s5, _ := signer.md.DeviceSign(p5)
		add("member-signature-missing", et, p5, s5)
	}
	add("signature-missing", et, payload, nil)
	add("signature-zero64", et, payload, make([]byte, 64))
	add("signature-truncated", et, payload, goodSig[:63])
	// altered payload (one byte), signature unchanged
	if len(payload) > 0 {
		p2 := append([]byte{}, payload...)
		p2[len(p2)-1] ^= 1
		add("payload-altered", et, p2, goodSig)
	}
	for _, t := range []int32{0, 999, math.MaxInt32} {
		add(fmt.Sprintf("unknown-type-%d", t), protocoltypes.EventType(t), payload, goodSig)
	}
	// wrong group secret
	var wrong [32]byte
	copy(wrong[:], []byte("another-group-secret-another-gro"))
	out = append(out, forgery{name: "wrong-group-secret", env: sealRaw(&wrong, et, payload, goodSig), mustFail: true})
	// re-labelled as another event type whose payload has the same wire shape: the signature covers the payload
	// only; the property fixes no outcome for this case (recorded, never a violation)
	for other2 := range eventTypesMapper {
		if other2 == et {
			continue
		}
		out = append(out, forgery{name: "relabelled-as-other-type", env: sealRaw(secret, other2, payload, goodSig), mustFail: false})
	}
	if flips {
		for bit := 0; bit < len(honest)*8; bit++ {
			m := append([]byte{}, honest...)
			m[bit/8] ^= 1 << uint(bit%8)
			out = append(out, forgery{name: "bitflip", env: m, mustFail: true})
		}
	}
	return honest, out
}

type c03Case struct {
	Group   string `json:"group"`
	Type    string `json:"event_type"`
	Forgery string `json:"forgery"`
}

func TestVerifC03(t *testing.T) {
	rep := vrep.New("C03")
	defer func() {
		if err := rep.Finish(); err != nil {
			t.Fatal(err)
		}
		if rep.NViolations() > 0 {
			t.Fail()
		}
	}()
	seed := vrep.Seed()
	thorough := vrep.Thorough()
	w := newVWorld(t, seed)
	defer w.close()
	var types []protocoltypes.EventType
	for et := range eventTypesMapper {
		types = append(types, et)
	}
	sort.Slice(types, func(i, j int) bool { return types[i] < types[j] })
	rep.Set("event_types", int64(len(types)))

	dA, dA2, dB := w.newDevice("A", "1"), w.newDevice("A", "2"), w.newDevice("B", "1")
	gmm := vDetGroup(seed, "G-c03")
	accSK, err := dA.ss.GetAccountPrivateKey()
	vmust(err)
	bSK, err := dB.ss.GetAccountPrivateKey()
	vmust(err)
	gContact, err := dA.ss.GetGroupForContact(bSK.GetPublic())
	vmust(err)
	type grp struct {
		name          string
		g             *protocoltypes.Group
		gsk           crypto.PrivKey
		honestGroupSK bool
		signer, other *vDevice
	}
	groups := []grp{
		{"multimember", gmm, vDetKey(seed, "group/G-c03"), true, dA, dB},
		{"account", dA.accountGroup(), accSK, true, dA, dA2},
		{"contact", gContact, vDetKey(seed, "not-the-contact-group-key"), false, dA, dB},
	}
	flipTypes := map[protocoltypes.EventType]bool{
		protocoltypes.EventType_EventTypeGroupMemberDeviceAdded:                 true,
		protocoltypes.EventType_EventTypeMultiMemberGroupInitialMemberAnnounced: true,
		protocoltypes.EventType_EventTypeAccountContactBlocked:                  true,
	}
	// ---- (a) every event type x forgery catalogue through openGroupEnvelope
	for _, gr := range groups {
		signer, other := newC03Signer(gr.signer, gr.g), newC03Signer(gr.other, gr.g)
		for _, et := range types {
			groupSigned := et == protocoltypes.EventType_EventTypeMultiMemberGroupInitialMemberAnnounced
			if groupSigned && !gr.honestGroupSK {
				continue
			}
			honest, fs := forgeries(seed, gr.g, gr.gsk, et, signer, other, (thorough || flipTypes[et]) && gr.name == "multimember")
			meta, ev, err := vOpenGroupEnvelope(gr.g, honest)
			ok := err == nil && meta.EventType == et && proto.Equal(ev, honestPayload(seed, et, signer))
			rep.Eval(fmt.Sprintf("%s/honest/opens=%v", gr.name, ok))
			if !ok {
				rep.Violation("C03/honest-event-refused", fmt.Sprintf("%s group: honest %s does not open: %v", gr.name, et, err), c03Case{gr.name, et.String(), "honest"})
			}
			for _, f := range fs {
				var ferr error
				var pan interface{}
				func() {
					defer func() { pan = recover() }()
					_, _, ferr = vOpenGroupEnvelope(gr.g, f.env)
				}()
				rep.Eval(fmt.Sprintf("%s/%s/rejected=%v", gr.name, f.name, ferr != nil))
				if pan != nil {
					rep.Violation("C03/open-panics", fmt.Sprintf("%s group, %s, %s: %v", gr.name, et, f.name, pan), c03Case{gr.name, et.String(), f.name})
					continue
				}
				if f.mustFail && ferr == nil {
					rep.Violation("C03/forged-event-opens/"+f.name, fmt.Sprintf("%s group: %s with forgery '%s' is accepted by openGroupEnvelope", gr.name, et, f.name), c03Case{gr.name, et.String(), f.name})
				}
			}
		}
		rep.Sample(map[string]interface{}{"part": "open", "group": gr.name, "event_types": len(types)})
	}

	// ---- (b) forged envelopes appended to a real log by a member: state unchanged, nothing emitted
	storeTypes := []protocoltypes.EventType{
		protocoltypes.EventType_EventTypeGroupMemberDeviceAdded,
		protocoltypes.EventType_EventTypeMultiMemberGroupInitialMemberAnnounced,
		protocoltypes.EventType_EventTypeAccountContactBlocked,
		protocoltypes.EventType_EventTypeAccountContactRequestReferenceReset,
		protocoltypes.EventType_EventTypeGroupDeviceChainKeyAdded,
	}
	if thorough {
		storeTypes = types
	}
	for _, gr := range groups {
		signer, other := newC03Signer(gr.signer, gr.g), newC03Signer(gr.other, gr.g)
		gc := gr.signer.open(gr.g)
		ms := gc.MetadataStore()
		sub, err := ms.EventBus().Subscribe([]any{new(*protocoltypes.GroupMetadataEvent), new(EventMetadataReceived)})
		vmust(err)
		// drain helper: collect emissions until the sentinel (an honest app-metadata / reset event) has come through
		sentinel := 0
		appendRaw := func(env []byte) {
			_, err := ms.AddOperation(w.ctx, operation.NewOperation(nil, "ADD", env), nil)
			vmust(err)
		}
		collect := func() (metaEvents, recvEvents []protocoltypes.EventType) {
			sentinel++
			marker := []byte(fmt.Sprintf("sentinel-%d", sentinel))
			payload := &protocoltypes.GroupMetadataPayloadSent{DevicePk: signer.dev, Message: marker}
			pb, _ := proto.Marshal(payload)
			sig, _ := signer.md.DeviceSign(pb)
			appendRaw(sealRaw(gr.g.GetSharedSecret(), protocoltypes.EventType_EventTypeGroupMetadataPayloadSent, pb, sig))
			seen := 0
			for seen < 2 {
				select {
				case e := <-sub.Out():
					switch v := e.(type) {
					case *protocoltypes.GroupMetadataEvent:
						if v == nil || v.Metadata == nil {
							// an event without content: something was emitted for an entry that did not open
							metaEvents = append(metaEvents, protocoltypes.EventType_EventTypeUndefined)
							continue
						}
						if v.Metadata.EventType == protocoltypes.EventType_EventTypeGroupMetadataPayloadSent && strings.Contains(string(v.Event), string(marker)) {
							seen++
							continue
						}
						metaEvents = append(metaEvents, v.Metadata.EventType)
					case EventMetadataReceived:
						if v.MetaEvent == nil || v.MetaEvent.Metadata == nil {
							recvEvents = append(recvEvents, protocoltypes.EventType_EventTypeUndefined)
							continue
						}
						if v.MetaEvent.Metadata.EventType == protocoltypes.EventType_EventTypeGroupMetadataPayloadSent && strings.Contains(string(v.MetaEvent.Event), string(marker)) {
							seen++
							continue
						}
						recvEvents = append(recvEvents, v.MetaEvent.Metadata.EventType)
					}
				case <-time.After(60 * time.Second):
					panic("HARNESS: sentinel event not delivered within 60s")
				}
			}
			return
		}
		collect()
		// the history a listing hands out (GroupMetadataList, the catch-up pass of an activation): a refused entry is
		// not part of it either, now or once the index has seen the entry
		listed := func() int {
			ch, err := ms.ListEvents(w.ctx, nil, nil, false)
			vmust(err)
			n := 0
			for range ch {
				n++
			}
			return n
		}
		for _, et := range storeTypes {
			groupSigned := et == protocoltypes.EventType_EventTypeMultiMemberGroupInitialMemberAnnounced
			if groupSigned && !gr.honestGroupSK {
				continue
			}
			honest, fs := forgeries(seed, gr.g, gr.gsk, et, signer, other, false)
			before := metaState(ms)
			for _, f := range fs {
				if !f.mustFail {
					continue
				}
				nListed := listed()
				appendRaw(f.env)
				me, re := collect()
				after := metaState(ms)
				if n := listed(); n != nListed+1 { // + the sentinel
					rep.Violation("C03/forged-event-listed/"+f.name, fmt.Sprintf("%s group: forged %s ('%s') appended by a member is handed out by the listing of the log's events (%d events listed before, %d after it and one honest event)", gr.name, et, f.name, nListed, n), c03Case{gr.name, et.String(), f.name})
				}
				rep.Eval(fmt.Sprintf("store/%s/%s/emitted=%d/state-unchanged=%v", gr.name, f.name, len(me)+len(re), after == before))
				rep.AddTransitions(1)
				if len(me)+len(re) > 0 {
					rep.Violation("C03/forged-event-emitted/"+f.name, fmt.Sprintf("%s group: forged %s ('%s') appended by a member was handed to subscribers (%v %v)", gr.name, et, f.name, me, re), c03Case{gr.name, et.String(), f.name})
				}
				if after != before {
					rep.Violation("C03/forged-event-changed-state/"+f.name, fmt.Sprintf("%s group: forged %s ('%s') changed the group state: %s", gr.name, et, f.name, firstDiff(after, before)), c03Case{gr.name, et.String(), f.name})
					before = after
				}
			}
			// the honest event: exactly one emission of each kind
			appendRaw(honest)
			me, re := collect()
			rep.Eval(fmt.Sprintf("store/%s/honest/emitted=%d+%d", gr.name, len(me), len(re)))
			rep.AddTransitions(1)
			if len(me) != 1 || len(re) != 1 || me[0] != et || re[0] != et {
				rep.Violation("C03/honest-event-not-emitted-once", fmt.Sprintf("%s group: honest %s emitted %v / %v", gr.name, et, me, re), c03Case{gr.name, et.String(), "honest"})
			}
		}
		sub.Close()
		rep.AddStates(1)
		rep.Sample(map[string]interface{}{"part": "store", "group": gr.name, "event_types": len(storeTypes)})
	}
}
