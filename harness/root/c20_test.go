//go:build verif

package weshnet

import (
	"archive/tar"
	"bytes"
	"context"
	"fmt"
	"io"
	"sort"
	"strings"
	"sync"
	"testing"
	"time"

	"github.com/ipfs/go-cid"
	ds "github.com/ipfs/go-datastore"
	dsync "github.com/ipfs/go-datastore/sync"
	mocknet "github.com/libp2p/go-libp2p/p2p/net/mock"
	"go.uber.org/zap"
	"google.golang.org/protobuf/proto"

	orbitdb "berty.tech/go-orbit-db"
	"berty.tech/go-orbit-db/pubsub/pubsubraw"
	"berty.tech/weshnet/v2/internal/zzverif/vrep"
	"berty.tech/weshnet/v2/pkg/ipfsutil"
	"berty.tech/weshnet/v2/pkg/protocoltypes"
	"berty.tech/weshnet/v2/pkg/secretstore"
)

type c20Op string

type tarMember struct {
	Name string
	Data []byte
}

func readTar(b []byte) []tarMember {
	tr := tar.NewReader(bytes.NewReader(b))
	var out []tarMember
	for {
		h, err := tr.Next()
		if err == io.EOF {
			return out
		}
		vmust(err)
		data, err := io.ReadAll(tr)
		vmust(err)
		out = append(out, tarMember{h.Name, data})
	}
}

func writeTar(ms []tarMember) []byte {
	var buf bytes.Buffer
	tw := tar.NewWriter(&buf)
	for _, m := range ms {
		vmust(tw.WriteHeader(&tar.Header{Typeflag: tar.TypeReg, Name: m.Name, Mode: 0o600, Size: int64(len(m.Data))}))
		_, err := tw.Write(m.Data)
		vmust(err)
	}
	vmust(tw.Close())
	return buf.Bytes()
}

// groupSnapshot is what the property compares per exported group.
type groupSnapshot struct {
	meta, msgs []string // entry CIDs, sorted
	metaHeads  []string
	msgHeads   []string
	state      string
}

func snapshotGroup(gc *GroupContext) groupSnapshot {
	cids := func(hs []cid.Cid) []string {
		var out []string
		for _, h := range hs {
			out = append(out, h.String())
		}
		sort.Strings(out)
		return out
	}
	heads := func(s interface{ OpLog() ipfslogLog }) []string { return nil }
	_ = heads
	var mh, sh []cid.Cid
	for _, e := range gc.MetadataStore().OpLog().RawHeads().Slice() {
		mh = append(mh, e.GetHash())
	}
	for _, e := range gc.MessageStore().OpLog().RawHeads().Slice() {
		sh = append(sh, e.GetHash())
	}
	return groupSnapshot{meta: cids(logHashes(gc.MetadataStore())), msgs: cids(logHashes(gc.MessageStore())), metaHeads: cids(mh), msgHeads: cids(sh), state: metaState(gc.MetadataStore())}
}

type ipfslogLog interface{}

func (a groupSnapshot) diff(b groupSnapshot) string {
	switch {
	case strings.Join(a.meta, ",") != strings.Join(b.meta, ","):
		return fmt.Sprintf("metadata entries differ (%d vs %d)", len(a.meta), len(b.meta))
	case strings.Join(a.msgs, ",") != strings.Join(b.msgs, ","):
		return fmt.Sprintf("message entries differ (%d vs %d)", len(a.msgs), len(b.msgs))
	case strings.Join(a.metaHeads, ",") != strings.Join(b.metaHeads, ","):
		return "metadata heads differ"
	case strings.Join(a.msgHeads, ",") != strings.Join(b.msgHeads, ","):
		return "message heads differ"
	case a.state != b.state:
		return "derived state differs: " + firstDiff(a.state, b.state)
	}
	return ""
}

type c20Source struct {
	ops                                 []c20Op
	archive                             []byte
	accountPK, accountGroupPK, devicePK []byte
	groups                              map[string]groupSnapshot // by group pk (hex)
	groupDef                            map[string]*protocoltypes.Group
	dagBytes                            map[string][]byte // CID -> raw node bytes of every exported log entry
	// what the message listing of each opened group returns on the exporting node (entry id = payload)
	messages map[string][]string
}

// buildSource runs a history on a fresh service and exports.
func buildSource(t testing.TB, seed int64, ops []c20Op) *c20Source {
	ctx := context.Background()
	openMu.Lock()
	tp, cleanup := NewTestingProtocol(ctx, t, nil, nil)
	openMu.Unlock()
	defer cleanup()
	svc := tp.Service.(*service)
	g1 := vDetGroup(seed, "c20-G1")
	xpk, _ := vDetKey(seed, "acct/X").GetPublic().Raw()
	contact := &protocoltypes.ShareableContact{Pk: xpk, PublicRendezvousSeed: []byte("seed-1-seed-1-seed-1-seed-1-seed"), Metadata: []byte("m")}
	for _, op := range ops {
		switch op {
		case "contact-request":
			_, _ = tp.Service.ContactRequestSend(ctx, &protocoltypes.ContactRequestSend_Request{Contact: contact})
		case "contact-activate":
			if gi, err := tp.Service.GroupInfo(ctx, &protocoltypes.GroupInfo_Request{ContactPk: xpk}); err == nil {
				openMu.Lock()
				_, _ = tp.Service.ActivateGroup(ctx, &protocoltypes.ActivateGroup_Request{GroupPk: gi.Group.PublicKey})
				openMu.Unlock()
				_, _ = tp.Service.AppMessageSend(ctx, &protocoltypes.AppMessageSend_Request{GroupPk: gi.Group.PublicKey, Payload: []byte("contact group message")})
			}
		case "contact-block":
			_, _ = tp.Service.ContactBlock(ctx, &protocoltypes.ContactBlock_Request{ContactPk: xpk})
		case "join-activate-G1":
			_, _ = tp.Service.MultiMemberGroupJoin(ctx, &protocoltypes.MultiMemberGroupJoin_Request{Group: g1})
			openMu.Lock()
			_, _ = tp.Service.ActivateGroup(ctx, &protocoltypes.ActivateGroup_Request{GroupPk: g1.PublicKey})
			openMu.Unlock()
		case "message-account":
			cfg, _ := tp.Service.ServiceGetConfiguration(ctx, &protocoltypes.ServiceGetConfiguration_Request{})
			_, _ = tp.Service.AppMessageSend(ctx, &protocoltypes.AppMessageSend_Request{GroupPk: cfg.AccountGroupPk, Payload: []byte("account message")})
		case "message-G1":
			_, _ = tp.Service.AppMessageSend(ctx, &protocoltypes.AppMessageSend_Request{GroupPk: g1.PublicKey, Payload: []byte("group message")})
		case "metadata-G1":
			_, _ = tp.Service.AppMetadataSend(ctx, &protocoltypes.AppMetadataSend_Request{GroupPk: g1.PublicKey, Payload: []byte("group metadata")})
		case "deactivate-G1":
			_, _ = tp.Service.DeactivateGroup(ctx, &protocoltypes.DeactivateGroup_Request{GroupPk: g1.PublicKey})
		case "fork-G1", "fork2-G1":
			// another member writes to G1 without having seen this node's entries (a concurrent branch): its
			// entries reach this node through the stores' replication path, after which both logs have two heads
			svc.lock.RLock()
			gc := svc.openedGroups[string(g1.PublicKey)]
			svc.lock.RUnlock()
			if gc == nil {
				break
			}
			side := &vWorld{t: t, ctx: ctx, seed: seed}
			sd := &vDevice{w: side}
			dsS := dsync.MutexWrap(ds.NewMapDatastore())
			ssS, err := secretstore.NewSecretStore(dsS, nil)
			vmust(err)
			odbS, err := NewWeshOrbitDB(ctx, tp.IpfsCoreAPI, &NewOrbitDBOptions{NewOrbitDBOptions: orbitdb.NewOrbitDBOptions{Logger: zap.NewNop()}, SecretStore: ssS, Datastore: dsS})
			vmust(err)
			sd.ss, sd.odb, sd.ds = ssS, odbS, dsS
			sgc := sd.open(g1)
			_, err = sgc.MetadataStore().AddDeviceToGroup(ctx)
			vmust(err)
			_, err = sgc.MessageStore().AddMessage(ctx, []byte("message of another member, concurrent branch"))
			vmust(err)
			if op == "fork2-G1" {
				// a longer concurrent branch: its head has a later clock than this node's
				_, err = sgc.MessageStore().AddMessage(ctx, []byte("second message of another member, concurrent branch"))
				vmust(err)
			}
			side.deliver(gc.MetadataStore(), logHashes(sgc.MetadataStore()))
			side.deliver(gc.MessageStore(), logHashes(sgc.MessageStore()))
			// the active group context answers the new member's announcement by sending it its chain key
			// (asynchronously): wait for that entry, so that nothing is appended while the export runs
			deadline := time.Now().Add(60 * time.Second)
			for {
				sent, _ := gc.MetadataStore().Index().(*metadataStoreIndex).areSecretsAlreadySent(sgc.MemberPubKey())
				if sent {
					break
				}
				if time.Now().After(deadline) {
					panic("HARNESS: the active group did not answer the new member within 60s")
				}
				time.Sleep(5 * time.Millisecond)
			}
			_ = sgc.Close()
			_ = odbS.Close()
		}
	}
	cfg, err := tp.Service.ServiceGetConfiguration(ctx, &protocoltypes.ServiceGetConfiguration_Request{})
	vmust(err)
	src := &c20Source{ops: ops, accountPK: cfg.AccountPk, accountGroupPK: cfg.AccountGroupPk, devicePK: cfg.DevicePk, groups: map[string]groupSnapshot{}, groupDef: map[string]*protocoltypes.Group{}, dagBytes: map[string][]byte{}}
	// nothing must be appended while the export runs: every activated group has published its own announcement
	svc.lock.RLock()
	var open []*GroupContext
	for _, gc := range svc.openedGroups {
		open = append(open, gc)
	}
	svc.lock.RUnlock()
	for _, gc := range open {
		waitOwnAnnouncement(gc)
	}
	var buf bytes.Buffer
	vmust(svc.export(ctx, &buf))
	src.archive = buf.Bytes()
	svc.lock.RLock()
	for _, gc := range svc.openedGroups {
		src.groups[fmt.Sprintf("%x", gc.group.PublicKey)] = snapshotGroup(gc)
		src.groupDef[fmt.Sprintf("%x", gc.group.PublicKey)] = gc.group
		for _, st := range []interface{ OpLogHashes() []cid.Cid }{} {
			_ = st
		}
		for _, h := range append(logHashes(gc.MetadataStore()), logHashes(gc.MessageStore())...) {
			nd, err := svc.ipfsCoreAPI.Dag().Get(ctx, h)
			vmust(err)
			src.dagBytes[h.String()] = nd.RawData()
		}
	}
	svc.lock.RUnlock()
	src.messages = map[string][]string{}
	for k, g := range src.groupDef {
		src.messages[k] = c20ListMessages(ctx, tp.Service, g.PublicKey)
	}
	return src
}

type restored struct {
	err        error
	hung       bool
	serviceErr string
	listings   []string
	panicked   interface{}
	accountPK  []byte
	accountGPK []byte
	devicePK   []byte
	groups     map[string]groupSnapshot
}

// restoreInto restores an archive into a fresh datastore + fresh mock node and reads back identity and logs.
// preexisting: 0 = fresh target store, 1 = it already holds an account, 2 = it holds only an account proof key.
// patience: how long a restore may run before it is taken to wait for entries that are not in the archive; valid
// archives get a long one (a slow machine must not turn into a rejection), mutated ones a short one.
func restoreInto(t testing.TB, src *c20Source, archive []byte, preexisting int, patience time.Duration, withService bool) *restored {
	r := &restored{groups: map[string]groupSnapshot{}}
	ctx, cancel := context.WithCancel(context.Background())
	defer cancel()
	dsB := dsync.MutexWrap(ds.NewMapDatastore())
	ssB, err := secretstore.NewSecretStore(dsB, nil)
	vmust(err)
	switch preexisting {
	case 1: // an account was used on the target store
		_, _, err := ssB.GetGroupForAccount()
		vmust(err)
	case 2: // only the proof key exists there (a multi-member identity was derived before anything else)
		_, err := ssB.GetOwnMemberDeviceForGroup(vDetGroup(src_seed(src), "c20-foreign-group"))
		vmust(err)
	}
	mn := mocknet.New()
	defer mn.Close()
	node := ipfsutil.TestingCoreAPIUsingMockNet(ctx, t, &ipfsutil.TestingAPIOpts{Logger: zap.NewNop(), Datastore: dsB, Mocknet: mn})
	odbCtx, odbCancel := context.WithCancel(ctx)
	defer odbCancel()
	odb, err := NewWeshOrbitDB(odbCtx, node.API(), &NewOrbitDBOptions{
		NewOrbitDBOptions: orbitdb.NewOrbitDBOptions{PubSub: pubsubraw.NewPubSub(node.PubSub(), node.MockNode().PeerHost.ID(), zap.NewNop(), nil), Logger: zap.NewNop()},
		Datastore:         dsB,
		SecretStore:       ssB,
	})
	vmust(err)
	defer odb.Close()
	done := make(chan struct{})
	callCtx, callCancel := context.WithCancel(ctx)
	defer callCancel()
	go func() {
		defer close(done)
		defer func() { r.panicked = recover() }()
		r.err = RestoreAccountExport(callCtx, bytes.NewReader(archive), node.API(), odb, zap.NewNop())
	}()
	select {
	case <-done:
	case <-time.After(patience):
		// the restore waits for entries that are not in the archive (it would fetch them from the network): end it
		r.hung = true
		callCancel()
		odbCancel()
		select {
		case <-done:
		case <-time.After(30 * time.Second):
			panic("HARNESS: RestoreAccountExport does not return after its database context is cancelled")
		}
		if r.err == nil {
			r.err = fmt.Errorf("restore did not complete (waiting for entries that are not in the archive)")
		}
		return r
	}
	if r.err != nil || r.panicked != nil {
		return r
	}
	// identity
	acc, md, err := ssB.GetGroupForAccount()
	if err != nil {
		r.err = err
		return r
	}
	r.accountGPK = acc.PublicKey
	r.accountPK, _ = md.Member().Raw()
	r.devicePK, _ = md.Device().Raw()
	// logs: open every group the source exported (no activation: nothing is appended)
	for k, g := range src.groupDef {
		gd := g
		if g.GroupType == protocoltypes.GroupType_GroupTypeAccount {
			gd = acc
		}
		gc, err := odb.OpenGroup(ctx, gd, &orbitdb.CreateDBOptions{Replicate: &vFalse})
		if err != nil {
			r.err = fmt.Errorf("restored node cannot open group %s: %w", k[:8], err)
			return r
		}
		r.groups[k] = snapshotGroup(gc)
		_ = gc.Close()
	}
	// a service started on the restored node finds every exported group again (it rebuilds its group registry from
	// the account log) and can activate it (only for archives that are expected to be complete: on a truncated log the
	// activation would wait for entries that exist nowhere)
	if !withService {
		return r
	}
	func() {
		defer func() {
			if p := recover(); p != nil {
				r.serviceErr = fmt.Sprintf("panic while starting a service on the restored node: %v", p)
			}
		}()
		tp, cleanupSvc := NewTestingProtocol(ctx, t, &TestingOpts{Logger: zap.NewNop(), Mocknet: mn, CoreAPIMock: node, OrbitDB: odb, SecretStore: ssB}, dsB)
		defer cleanupSvc()
		for k, g := range src.groupDef {
			if g.GroupType == protocoltypes.GroupType_GroupTypeAccount {
				continue
			}
			if _, err := tp.Service.GroupInfo(ctx, &protocoltypes.GroupInfo_Request{GroupPk: g.PublicKey}); err != nil {
				r.serviceErr = fmt.Sprintf("the service on the restored node does not know exported group %s (%s): %v", k[:8], g.GroupType, err)
				return
			}
			if _, err := tp.Service.ActivateGroup(ctx, &protocoltypes.ActivateGroup_Request{GroupPk: g.PublicKey}); err != nil {
				r.serviceErr = fmt.Sprintf("the service on the restored node cannot activate exported group %s (%s): %v", k[:8], g.GroupType, err)
				return
			}
		}
		// the restored node opens the messages the exporting device had written: same listing, group by group
		for k, g := range src.groupDef {
			pk := g.PublicKey
			if g.GroupType == protocoltypes.GroupType_GroupTypeAccount {
				pk = acc.PublicKey
			}
			// recorded, not judged: whether the restored node (a new device) can open what the exporting device wrote
			// depends on announcements C20 does not speak about (on the unchanged tree the account group's messages
			// of the exporting device are not listed after a restore)
			got := c20ListMessages(ctx, tp.Service, pk)
			r.listings = append(r.listings, fmt.Sprintf("%s/same-message-listing=%v", g.GroupType, fmt.Sprint(got) == fmt.Sprint(src.messages[k])))
		}
	}()
	return r
}

type c20Case struct {
	History  []c20Op `json:"history"`
	Mutation string  `json:"mutation"`
}

func TestVerifC20(t *testing.T) {
	rep := vrep.New("C20")
	defer func() {
		if err := rep.Finish(); err != nil {
			t.Fatal(err)
		}
		if rep.NViolations() > 0 {
			t.Fail()
		}
	}()
	seed := vrep.Seed()
	alphabet := []c20Op{"contact-request", "contact-block", "join-activate-G1", "message-account", "message-G1", "metadata-G1", "deactivate-G1", "fork-G1"}
	depth := 2
	if vrep.Thorough() {
		depth = 3
	}
	var hists [][]c20Op
	var rec func(cur []c20Op)
	rec = func(cur []c20Op) {
		hists = append(hists, append([]c20Op{}, cur...))
		if len(cur) == depth {
			return
		}
		for _, o := range alphabet {
			// operations on G1 before joining it do nothing: skip those histories (same state as without them)
			joined := false
			for _, c := range cur {
				if c == "join-activate-G1" {
					joined = true
				}
			}
			if !joined && (o == "message-G1" || o == "metadata-G1" || o == "deactivate-G1" || o == "fork-G1") {
				continue
			}
			rec(append(cur, o))
		}
	}
	rec(nil)
	// forked logs need a message of this node and the concurrent branch: depth 3 histories, always included
	// a contact group that was opened, whose contact is then blocked / whose request is still pending
	hists = append(hists, []c20Op{"contact-request", "contact-activate"}, []c20Op{"contact-request", "contact-activate", "contact-block"})
	// branches of different lengths: the heads of the forked log carry different clocks
	hists = append(hists, []c20Op{"join-activate-G1", "message-G1", "message-G1", "fork-G1"}, []c20Op{"join-activate-G1", "message-G1", "fork2-G1"})
	hists = append(hists, []c20Op{"join-activate-G1", "message-G1", "fork-G1"}, []c20Op{"join-activate-G1", "fork-G1", "message-G1"}, []c20Op{"join-activate-G1", "fork-G1", "fork-G1"})
	var wg sync.WaitGroup
	sem := make(chan struct{}, 8)
	var mu sync.Mutex
	var mutSources []*c20Source
	for _, h := range hists {
		h := h
		wg.Add(1)
		sem <- struct{}{}
		go func() {
			defer func() { <-sem; wg.Done() }()
			src := buildSource(t, seed, h)
			c20CheckValid(rep, t, src)
			mu.Lock()
			if len(h) == depth && (h[0] == "join-activate-G1" && (h[len(h)-1] == "message-G1" || h[len(h)-1] == "contact-request")) || len(h) == 0 {
				mutSources = append(mutSources, src)
			}
			mu.Unlock()
		}()
	}
	wg.Wait()
	rep.AddStates(int64(len(hists)))
	rep.Sample(map[string]interface{}{"histories": len(hists), "depth": depth, "example": fmt.Sprint(hists[len(hists)-1])})
	// mutation catalogue on representative archives
	if len(mutSources) > 3 {
		mutSources = mutSources[:3]
	}
	for _, src := range mutSources {
		c20Mutations(rep, t, src)
	}
	rep.AddTraces(rep.Transitions)
}

func c20CheckValid(rep *vrep.Report, t testing.TB, src *c20Source) {
	viol := func(kind, desc string) {
		rep.Violation("C20/"+kind, fmt.Sprintf("history %v: %s", src.ops, desc), c20Case{src.ops, "valid"})
	}
	members := readTar(src.archive)
	// (a) content of the archive
	names := map[string]int{}
	for _, m := range members {
		names[m.Name]++
	}
	if names[exportAccountKeyFilename] != 1 || names[exportAccountProofKeyFilename] != 1 {
		viol("archive-keys-missing", fmt.Sprintf("key files in the archive: %d / %d", names[exportAccountKeyFilename], names[exportAccountProofKeyFilename]))
	}
	for k, snap := range src.groups {
		for _, c := range append(append([]string{}, snap.meta...), snap.msgs...) {
			found := false
			for _, m := range members {
				if m.Name == exportOrbitDBEntriesPrefix+c {
					found = true
					if !bytes.Equal(m.Data, src.dagBytes[c]) {
						viol("archive-entry-differs", "entry "+c+" in the archive is not byte-identical to the node stored under that identifier")
					}
				}
			}
			if !found {
				viol("archive-entry-missing", fmt.Sprintf("entry %s of group %s is not in the archive", c, k[:8]))
			}
		}
		// heads
		foundHeads := false
		for _, m := range members {
			if !strings.HasPrefix(m.Name, exportOrbitDBHeadsPrefix) {
				continue
			}
			he := &protocoltypes.GroupHeadsExport{}
			if proto.Unmarshal(m.Data, he) != nil || fmt.Sprintf("%x", he.PublicKey) != k {
				continue
			}
			foundHeads = true
			var mh, sh []string
			for _, b := range he.MetadataHeadsCids {
				c, _ := cid.Cast(b)
				mh = append(mh, c.String())
			}
			for _, b := range he.MessagesHeadsCids {
				c, _ := cid.Cast(b)
				sh = append(sh, c.String())
			}
			sort.Strings(mh)
			sort.Strings(sh)
			if strings.Join(mh, ",") != strings.Join(snap.metaHeads, ",") || strings.Join(sh, ",") != strings.Join(snap.msgHeads, ",") {
				viol("archive-heads-differ", "heads recorded for group "+k[:8]+" are not the current heads")
			}
		}
		if !foundHeads {
			viol("archive-heads-missing", "no heads file for open group "+k[:8])
		}
	}
	maxHeads := 0
	for _, snap := range src.groups {
		if len(snap.metaHeads) > maxHeads {
			maxHeads = len(snap.metaHeads)
		}
		if len(snap.msgHeads) > maxHeads {
			maxHeads = len(snap.msgHeads)
		}
	}
	rep.Eval(fmt.Sprintf("valid/archive-content/groups=%d/max-heads=%d", len(src.groups), maxHeads))
	// (b) restore into an empty node
	r := restoreInto(t, src, src.archive, 0, 60*time.Second, true)
	rep.AddTransitions(1)
	rep.Eval(fmt.Sprintf("valid/restore/groups=%d/err=%v", len(src.groups), r.err != nil))
	if r.panicked != nil {
		viol("restore-panics", fmt.Sprint(r.panicked))
		return
	}
	if r.err != nil {
		viol("valid-archive-rejected", r.err.Error())
		return
	}
	if r.serviceErr != "" {
		viol("restored-group-unusable", r.serviceErr)
	}
	for _, l := range r.listings {
		rep.Eval("restored-node/" + l)
	}
	if !bytes.Equal(r.accountPK, src.accountPK) || !bytes.Equal(r.accountGPK, src.accountGroupPK) {
		viol("identity-differs", "restored account / account group key differ from the exported account")
	}
	if bytes.Equal(r.devicePK, src.devicePK) {
		viol("device-key-copied", "the restored node uses the exporting device's key")
	}
	for k, want := range src.groups {
		got, ok := r.groups[k]
		if !ok {
			viol("group-missing-after-restore", k[:8])
			continue
		}
		if d := want.diff(got); d != "" {
			viol("restored-group-differs", fmt.Sprintf("group %s: %s", k[:8], d))
		}
	}
}

func c20Mutations(rep *vrep.Report, t testing.TB, src *c20Source) {
	members := readTar(src.archive)
	type mut struct {
		name       string
		ms         []tarMember
		mustReject bool
		preexist   int
	}
	var muts []mut
	clone := func() []tarMember {
		out := make([]tarMember, len(members))
		for i, m := range members {
			out[i] = tarMember{m.Name, append([]byte{}, m.Data...)}
		}
		return out
	}
	kind := func(name string) string {
		switch {
		case name == exportAccountKeyFilename || name == exportAccountProofKeyFilename:
			return "key"
		case strings.HasPrefix(name, exportOrbitDBEntriesPrefix):
			return "entry"
		case strings.HasPrefix(name, exportOrbitDBHeadsPrefix):
			return "heads"
		}
		return "other"
	}
	for i, m := range members {
		k := kind(m.Name)
		// dropped / duplicated
		d := clone()
		muts = append(muts, mut{"drop-" + k, append(d[:i:i], d[i+1:]...), k == "key", 0})
		d2 := clone()
		dup := append(append(append([]tarMember{}, d2[:i+1]...), tarMember{m.Name, append([]byte{}, m.Data...)}), d2[i+1:]...)
		if k != "heads" {
			// a duplicated heads file is left out: loading heads that the store already holds hands a nil entry
			// to the replicator in a background goroutine and kills the process (observation outside the property's
			// rejection list, see DESIGN.md); nothing in a harness can survive that
			muts = append(muts, mut{"duplicate-" + k, dup, k == "key", 0})
		}
		// byte flips
		var positions []int
		if k == "key" || vrep.Thorough() {
			for p := 0; p < len(m.Data); p++ {
				positions = append(positions, p)
			}
		} else if len(m.Data) > 0 {
			positions = []int{0, len(m.Data) / 2, len(m.Data) - 1}
		}
		for _, p := range positions {
			f := clone()
			f[i].Data[p] ^= 1 << uint(p%8)
			muts = append(muts, mut{"flip-" + k, f, k == "entry", 0})
		}
		if i+1 < len(members) {
			s := clone()
			s[i], s[i+1] = s[i+1], s[i]
			muts = append(muts, mut{"swap-adjacent", s, false, 0})
		}
	}
	rev := clone()
	for i, j := 0, len(rev)-1; i < j; i, j = i+1, j-1 {
		rev[i], rev[j] = rev[j], rev[i]
	}
	muts = append(muts, mut{"reverse-order", rev, false, 0})
	// entry renamed to another entry's identifier, key files swapped
	var entryIdx []int
	for i, m := range members {
		if kind(m.Name) == "entry" {
			entryIdx = append(entryIdx, i)
		}
	}
	if len(entryIdx) >= 2 {
		rn := clone()
		rn[entryIdx[0]].Name = members[entryIdx[1]].Name
		muts = append(muts, mut{"entry-renamed-to-another-identifier", rn, true, 0})
		sw := clone()
		sw[entryIdx[0]].Data, sw[entryIdx[1]].Data = sw[entryIdx[1]].Data, sw[entryIdx[0]].Data
		muts = append(muts, mut{"entry-contents-swapped", sw, true, 0})
	}
	ks := clone()
	var ki []int
	for i, m := range ks {
		if kind(m.Name) == "key" {
			ki = append(ki, i)
		}
	}
	if len(ki) == 2 {
		ks[ki[0]].Data, ks[ki[1]].Data = ks[ki[1]].Data, ks[ki[0]].Data
		muts = append(muts, mut{"key-files-swapped", ks, false, 0})
	}
	{
		// both key files absent: nothing identifies the account
		var nk []tarMember
		for _, m := range clone() {
			if kind(m.Name) != "key" {
				nk = append(nk, m)
			}
		}
		muts = append(muts, mut{"drop-all-keys", nk, true, 0})
	}
	muts = append(muts, mut{"restore-onto-existing-account", clone(), true, 1}, mut{"restore-onto-store-with-proof-key-only", clone(), true, 2})

	valid := restoreInto(t, src, src.archive, 0, 60*time.Second, false)
	var wg sync.WaitGroup
	sem := make(chan struct{}, 12)
	for _, m := range muts {
		m := m
		wg.Add(1)
		sem <- struct{}{}
		go func() {
			defer func() { <-sem; wg.Done() }()
			r := restoreInto(t, src, writeTar(m.ms), m.preexist, 4*time.Second, false)
			rep.AddTransitions(1)
			outcome := "rejected"
			switch {
			case r.panicked != nil:
				outcome = "panic"
			case r.err != nil && r.hung:
				outcome = "rejected-incomplete"
			case r.err != nil:
				outcome = "rejected"
			default:
				same := bytes.Equal(r.accountPK, valid.accountPK) && bytes.Equal(r.accountGPK, valid.accountGPK)
				for k, want := range valid.groups {
					if got, ok := r.groups[k]; !ok || want.diff(got) != "" {
						same = false
					}
				}
				if same {
					outcome = "accepted-identical"
				} else {
					outcome = "accepted-different"
				}
			}
			rep.Eval(fmt.Sprintf("mutation/%s/%s", m.name, outcome))
			if m.preexist != 0 && r.err != nil {
				rep.Set("refusal_"+m.name, r.err.Error())
			}
			if m.mustReject && r.err == nil {
				rep.Violation("C20/corrupt-archive-accepted/"+m.name, fmt.Sprintf("history %v: archive with mutation '%s' is restored without error (%s)", src.ops, m.name, outcome), c20Case{src.ops, m.name})
			}
			if r.panicked != nil {
				rep.Violation("C20/restore-panics", fmt.Sprintf("history %v, mutation '%s': %v", src.ops, m.name, r.panicked), c20Case{src.ops, m.name})
			}
		}()
	}
	wg.Wait()
	rep.Sample(map[string]interface{}{"mutated_archive_of": fmt.Sprint(src.ops), "members": len(members), "mutations": len(muts)})
}

func src_seed(src *c20Source) int64 { return 1 }

// c20ListMessages: the terminating message listing of a group through the service, as "entry id = payload".
func c20ListMessages(ctx context.Context, svc Service, groupPK []byte) []string {
	cctx, cancel := context.WithTimeout(ctx, 30*time.Second)
	defer cancel()
	st := &recStream[protocoltypes.GroupMessageEvent]{ctx: cctx}
	if err := svc.GroupMessageList(&protocoltypes.GroupMessageList_Request{GroupPk: groupPK, UntilNow: true}, st); err != nil {
		return []string{"listing error: " + err.Error()}
	}
	var out []string
	for _, m := range st.all() {
		id := "?"
		if _, c, err := cid.CidFromBytes(m.EventContext.Id); err == nil {
			id = c.String()
		}
		out = append(out, id[len(id)-8:]+"="+string(m.Message))
	}
	return out
}
