//go:build verif

package weshnet

import (
	"fmt"
	"sort"
	"strings"
	"sync"
	"testing"

	"github.com/ipfs/go-cid"

	"berty.tech/weshnet/v2/internal/zzverif/vrep"
	"berty.tech/weshnet/v2/pkg/protocoltypes"
)

// written is a causally ordered single-writer history on an account group, as produced by the real store.
type written struct {
	ops      []mOp
	okOps    []mOp      // operations that appended an entry
	hashes   []cid.Cid  // entries in log order
	states   []string   // writer's full state vector after each appended entry (index k = after k entries)
	refs     []string   // reference account-level state after k entries
	accounts []string   // writer's account-level state after k entries
	shape    string     // event types + subjects (dedup key)
}

func writeHistory(w *vWorld, devName string, ops []mOp) (*vDevice, *GroupContext, *written) {
	d := w.newDevice("A", devName)
	gc := d.open(d.accountGroup())
	ms := gc.MetadataStore()
	env := newMEnv(w.seed, gc.MemberPubKey())
	wr := &written{ops: ops}
	wr.states = append(wr.states, metaState(ms))
	wr.accounts = append(wr.accounts, metaStateAccount(ms))
	for _, op := range ops {
		before := ms.OpLog().Len()
		err := env.apply(w.ctx, ms, op)
		after := ms.OpLog().Len()
		if err == nil && after == before+1 {
			wr.okOps = append(wr.okOps, op)
			wr.states = append(wr.states, metaState(ms))
			wr.accounts = append(wr.accounts, metaStateAccount(ms))
		} else if after != before {
			panic(fmt.Sprintf("op %v: err=%v but log length %d -> %d", op, err, before, after))
		}
	}
	wr.hashes = logHashes(ms)
	ref := newRefMeta(gc.MemberPubKey())
	wr.refs = append(wr.refs, ref.String())
	var shape []string
	for _, e := range ms.OpLog().Values().Slice() {
		ev, _, err := vOpenMetadataEntry(ms.OpLog(), e, gc.Group())
		vmust(err)
		ref.applyEvent(ev)
		wr.refs = append(wr.refs, ref.String())
		shape = append(shape, ev.Metadata.EventType.String())
	}
	wr.shape = strings.Join(shape, ",") + "|" + fmt.Sprint(wr.okOps)
	return d, gc, wr
}

// deliveryPlans: every composition of n into consecutive batches x a per-batch order.
type plan struct {
	Batches [][]int `json:"batches"` // indices into the log, in delivery order
	Reopen  int     `json:"reopen_after_batch"`
}

func compositions(n int) [][]int {
	if n == 0 {
		return [][]int{{}}
	}
	var out [][]int
	for first := 1; first <= n; first++ {
		for _, rest := range compositions(n - first) {
			out = append(out, append([]int{first}, rest...))
		}
	}
	return out
}

func permutations(xs []int) [][]int {
	if len(xs) <= 1 {
		return [][]int{append([]int{}, xs...)}
	}
	var out [][]int
	for i := range xs {
		rest := append(append([]int{}, xs[:i]...), xs[i+1:]...)
		for _, p := range permutations(rest) {
			out = append(out, append([]int{xs[i]}, p...))
		}
	}
	return out
}

func plansFor(n int, thorough bool) []plan {
	var out []plan
	for _, comp := range compositions(n) {
		// per-batch orders
		var batchOrders [][][]int
		start := 0
		for _, sz := range comp {
			idx := make([]int, sz)
			for i := range idx {
				idx[i] = start + i
			}
			start += sz
			var orders [][]int
			if sz <= 3 && thorough {
				orders = permutations(idx)
			} else {
				rev := make([]int, sz)
				for i := range idx {
					rev[i] = idx[sz-1-i]
				}
				orders = [][]int{rev}
				if sz > 1 {
					orders = append(orders, idx)
				}
				if sz > 2 {
					rot := append(append([]int{}, idx[1:]...), idx[0])
					orders = append(orders, rot)
				}
			}
			batchOrders = append(batchOrders, orders)
		}
		// cartesian product (thorough) or "same kind of order in every batch" (quick)
		if thorough {
			var rec func(i int, cur [][]int)
			rec = func(i int, cur [][]int) {
				if i == len(batchOrders) {
					out = append(out, plan{Batches: append([][]int{}, cur...), Reopen: -1})
					return
				}
				for _, o := range batchOrders[i] {
					rec(i+1, append(cur, o))
				}
			}
			rec(0, nil)
		} else {
			for kind := 0; kind < 3; kind++ {
				var bs [][]int
				used := false
				for _, orders := range batchOrders {
					k := kind
					if k >= len(orders) {
						k = 0
					} else if kind > 0 {
						used = true
					}
					bs = append(bs, orders[k])
				}
				if kind == 0 || used {
					out = append(out, plan{Batches: bs, Reopen: -1})
				}
			}
		}
	}
	// reopen of the replica after every batch position, on the newest-first plans
	var withReopen []plan
	for _, p := range out {
		withReopen = append(withReopen, p)
	}
	for _, comp := range compositions(n) {
		if len(comp) < 2 && n > 1 {
			continue
		}
		start := 0
		var bs [][]int
		for _, sz := range comp {
			rev := make([]int, sz)
			for i := 0; i < sz; i++ {
				rev[i] = start + sz - 1 - i
			}
			start += sz
			bs = append(bs, rev)
		}
		for r := 0; r < len(bs); r++ {
			withReopen = append(withReopen, plan{Batches: bs, Reopen: r})
		}
	}
	return withReopen
}

type c04Case struct {
	Scenario string `json:"scenario"`
	Ops      []mOp  `json:"ops"`
	Plan     *plan  `json:"plan,omitempty"`
	Detail   string `json:"detail"`
}

func firstDiff(a, b string) string {
	la, lb := strings.Split(a, "\n"), strings.Split(b, "\n")
	for i := 0; i < len(la) && i < len(lb); i++ {
		if la[i] != lb[i] {
			return fmt.Sprintf("%q vs %q", la[i], lb[i])
		}
	}
	return fmt.Sprintf("%d vs %d lines", len(la), len(lb))
}

var c04DevCounter int64
var c04DevMu sync.Mutex

func nextDev(prefix string) string {
	c04DevMu.Lock()
	defer c04DevMu.Unlock()
	c04DevCounter++
	return fmt.Sprintf("%s%d", prefix, c04DevCounter)
}

// c04CheckHistory writes the history on a fresh writer, checks the writer against the reference, then replays
// every delivery plan on fresh replicas, with reopen and re-index.
func c04CheckHistory(rep *vrep.Report, w *vWorld, ops []mOp, seenShapes *sync.Map, thorough bool) {
	d, gc, wr := writeHistory(w, nextDev("w"), ops)
	defer func() { _ = gc.Close() }()
	if _, dup := seenShapes.LoadOrStore(wr.shape, true); dup {
		return
	}
	n := len(wr.hashes)
	viol := func(kind, desc string, p *plan) {
		rep.Violation("C04/"+kind, fmt.Sprintf("account history %v: %s", wr.okOps, desc), c04Case{Scenario: "account", Ops: ops, Plan: p, Detail: desc})
	}
	rep.AddStates(1)
	// (4) writer vs reference, after every entry
	for k := 0; k <= n; k++ {
		rep.AddTransitions(1)
		if wr.accounts[k] != wr.refs[k] {
			viol("writer-differs-from-reference", fmt.Sprintf("after %d entries: %s", k, firstDiff(wr.accounts[k], wr.refs[k])), nil)
			break
		}
	}
	rep.Eval(fmt.Sprintf("account/len=%d/writer-vs-reference", n))
	if n == 0 {
		return
	}
	// (2) reopen of the writer, (3) re-index
	{
		ms := gc.MetadataStore()
		vmust(ms.Load(w.ctx, -1))
		rep.AddTransitions(1)
		if s := metaState(ms); s != wr.states[n] {
			viol("reindex-changes-state", "re-loading the same log changes the state: "+firstDiff(s, wr.states[n]), nil)
		}
		gc = d.reopen(gc)
		rep.AddTransitions(1)
		if s := metaState(gc.MetadataStore()); s != wr.states[n] {
			viol("reopen-changes-state", "closing and reopening the group changes the state: "+firstDiff(s, wr.states[n]), nil)
		}
		rep.Eval(fmt.Sprintf("account/len=%d/reopen+reindex", n))
	}
	// (1) every delivery plan to a fresh replica
	for _, p := range plansFor(n, thorough) {
		p := p
		r := w.newDevice("A", nextDev("r"))
		rgc := r.open(r.accountGroup())
		delivered := 0
		bad := false
		for bi, b := range p.Batches {
			var hs []cid.Cid
			for _, i := range b {
				hs = append(hs, wr.hashes[i])
			}
			w.deliver(rgc.MetadataStore(), hs)
			delivered += len(b)
			rep.AddTransitions(1)
			if p.Reopen == bi {
				rgc = r.reopen(rgc)
				rep.AddTransitions(1)
			}
			if s := metaState(rgc.MetadataStore()); s != wr.states[delivered] {
				kind := "replica-differs-from-writer"
				if p.Reopen >= 0 && p.Reopen <= bi {
					kind = "replica-differs-after-reopen"
				}
				viol(kind, fmt.Sprintf("after delivering batches %v (%d of %d entries): %s", p.Batches[:bi+1], delivered, n, firstDiff(s, wr.states[delivered])), &p)
				bad = true
				break
			}
		}
		if !bad {
			// listing order is checked by C13; here a final re-index of the replica
			vmust(rgc.MetadataStore().Load(w.ctx, -1))
			if s := metaState(rgc.MetadataStore()); s != wr.states[n] {
				viol("reindex-changes-state", "replica re-load: "+firstDiff(s, wr.states[n]), &p)
			}
		}
		rep.Eval(fmt.Sprintf("account/len=%d/batches=%d/reopen=%v/ok=%v", n, len(p.Batches), p.Reopen >= 0, !bad))
		_ = rgc.Close()
		_ = r.odb.Close()
	}
	_ = d.odb.Close()
}

func c04Alphabet(contacts []string, full bool) []mOp {
	var out []mOp
	for _, c := range contacts {
		out = append(out, mOp{"enqueue", c, 1}, mOp{"enqueue", c, 2}, mOp{"sent", c, 0}, mOp{"received", c, 1}, mOp{"discard", c, 0}, mOp{"accept", c, 0}, mOp{"block", c, 0}, mOp{"unblock", c, 0})
	}
	out = append(out, mOp{Kind: "cr-enable"}, mOp{Kind: "cr-disable"}, mOp{Kind: "cr-reset"})
	if full {
		// "replicating" appends an event type the index has no handler for, "app-meta" one whose handler keeps no state
		out = append(out, mOp{Kind: "join"}, mOp{Kind: "leave"}, mOp{Kind: "credential", Variant: 1}, mOp{Kind: "replicating"}, mOp{Kind: "app-meta"})
	}
	return out
}

func TestVerifC04(t *testing.T) {
	rep := vrep.New("C04")
	defer func() {
		if err := rep.Finish(); err != nil {
			t.Fatal(err)
		}
		if rep.NViolations() > 0 {
			t.Fail()
		}
	}()
	seed := vrep.Seed()
	thorough := vrep.Thorough()
	// histories: all sequences up to depth over the alphabet (operations refused by the guards append nothing,
	// so many sequences produce the same log: deduplicated by the resulting event sequence)
	var hists [][]mOp
	var rec func(cur []mOp, alpha []mOp, depth int)
	rec = func(cur []mOp, alpha []mOp, depth int) {
		if len(cur) > 0 {
			hists = append(hists, append([]mOp{}, cur...))
		}
		if len(cur) == depth {
			return
		}
		for _, o := range alpha {
			rec(append(cur, o), alpha, depth)
		}
	}
	if thorough {
		rec(nil, c04Alphabet([]string{"X"}, true), 3)
		rec(nil, c04Alphabet([]string{"X"}, false), 4)
		rec(nil, c04Alphabet([]string{"X", "Y"}, false), 3)
	} else {
		rec(nil, c04Alphabet([]string{"X"}, true), 2)
		rec(nil, c04Alphabet([]string{"X"}, false), 3)
		rec(nil, []mOp{{"enqueue", "X", 1}, {"block", "X", 0}, {"received", "Y", 1}, {"accept", "Y", 0}, {Kind: "cr-reset"}}, 3)
	}
	// subjects that go back and forth: a group joined, left and joined again; requests switched on and off
	rec(nil, []mOp{{Kind: "join"}, {Kind: "leave"}, {Kind: "cr-enable"}, {Kind: "cr-disable"}}, 4)
	workers := 12
	ch := make(chan []mOp, 64)
	var wg sync.WaitGroup
	seen := &sync.Map{}
	for i := 0; i < workers; i++ {
		wg.Add(1)
		go func() {
			defer wg.Done()
			w := newVWorld(t, seed)
			defer w.close()
			count := 0
			for ops := range ch {
				c04CheckHistory(rep, w, ops, seen, thorough)
				count++
				if count%150 == 0 {
					// recycle the mock node now and then (memory)
					w.close()
					w = newVWorld(t, seed)
				}
			}
		}()
	}
	for _, h := range hists {
		ch <- h
	}
	close(ch)
	wg.Wait()
	nShapes := 0
	seen.Range(func(k, v interface{}) bool { nShapes++; return true })
	rep.Set("operation_sequences", int64(len(hists)))
	rep.Set("distinct_logs", int64(nShapes))
	rep.Sample(map[string]interface{}{"scenario": "account-group histories", "operation_sequences": len(hists), "distinct_logs": nShapes, "example": fmt.Sprint(hists[len(hists)/2])})
	rep.AddTraces(int64(nShapes))

	// multi-member group and concurrent writers
	w := newVWorld(t, seed)
	defer w.close()
	c04MultiMember(rep, w, thorough)
	c04Contact(rep, w, thorough)
	c04Concurrent(rep, w, thorough)
}

// c04Contact: a contact group in which both sides disclose their alias key, in both orders. A second device of the
// same account that receives the same entries in any batch plan, and every device after a reopen, must report what
// the live writer reports (members, devices and the alias fields of the index).
func c04Contact(rep *vrep.Report, w *vWorld, thorough bool) {
	for _, order := range [][]string{{"A", "B"}, {"B", "A"}} {
		a1, b1 := w.newDevice("A", nextDev("k")), w.newDevice("B", nextDev("k"))
		bAcc, err := b1.ss.GetAccountPrivateKey()
		vmust(err)
		g, err := a1.ss.GetGroupForContact(bAcc.GetPublic())
		vmust(err)
		gcs := map[string]*GroupContext{"A": a1.open(g), "B": b1.open(g)}
		syncAll := func() {
			w.deliver(gcs["A"].MetadataStore(), logHashes(gcs["B"].MetadataStore()))
			w.deliver(gcs["B"].MetadataStore(), logHashes(gcs["A"].MetadataStore()))
		}
		for _, who := range []string{"A", "B"} {
			_, err := gcs[who].MetadataStore().AddDeviceToGroup(w.ctx)
			vmust(err)
			syncAll()
		}
		for _, who := range order {
			_, err := gcs[who].MetadataStore().ContactSendAliasKey(w.ctx)
			vmust(err)
			syncAll()
		}
		want := metaState(gcs["A"].MetadataStore())
		hashes := logHashes(gcs["A"].MetadataStore())
		viol := func(kind, desc string) {
			rep.Violation("C04/"+kind, fmt.Sprintf("contact group, alias keys disclosed in order %v: %s", order, desc), c04Case{Scenario: "contact-alias", Detail: desc})
		}
		if !strings.Contains(want, "own-sent=true") || strings.Contains(want, "other=\n") {
			viol("alias-state-incomplete", "the live writer does not hold both disclosures: "+want)
		}
		for _, p := range plansFor(len(hashes), false) {
			if !thorough && len(p.Batches) > 3 {
				continue
			}
			r := w.newDevice("A", nextDev("k"))
			rgc := r.open(g)
			for bi, b := range p.Batches {
				var hs []cid.Cid
				for _, i := range b {
					hs = append(hs, hashes[i])
				}
				w.deliver(rgc.MetadataStore(), hs)
				if p.Reopen == bi {
					rgc = r.reopen(rgc)
				}
				rep.AddTransitions(1)
			}
			s := metaState(rgc.MetadataStore())
			rep.Eval(fmt.Sprintf("contact-alias/batches=%d/reopen=%v/equal=%v", len(p.Batches), p.Reopen >= 0, s == want))
			if s != want {
				viol("replica-differs-from-writer", fmt.Sprintf("second device of A, plan %v reopen=%d: %s", p.Batches, p.Reopen, firstDiff(s, want)))
			}
			_ = rgc.Close()
			_ = r.odb.Close()
		}
		ngc := a1.reopen(gcs["A"])
		if s := metaState(ngc.MetadataStore()); s != want {
			viol("reopen-changes-state", firstDiff(s, want))
		}
		rep.AddStates(1)
		_ = ngc.Close()
		_ = gcs["B"].Close()
	}
	rep.Sample(map[string]interface{}{"scenario": "contact group with alias disclosures", "orders": 2})
}

// c04MultiMember: members, devices and admins of a multi-member group after a causally ordered multi-writer history.
func c04MultiMember(rep *vrep.Report, w *vWorld, thorough bool) {
	g := vDetGroup(w.seed, "G-mm")
	gsk := vDetKey(w.seed, "group/G-mm")
	devs := []*vDevice{w.newDevice("A", nextDev("m")), w.newDevice("B", nextDev("m")), w.newDevice("A", nextDev("m"))}
	var gcs []*GroupContext
	for _, d := range devs {
		gcs = append(gcs, d.open(g))
	}
	syncAll := func() {
		// everybody receives everything that exists (causal order for the next writer)
		all := map[string]cid.Cid{}
		for _, gc := range gcs {
			for _, h := range logHashes(gc.MetadataStore()) {
				all[h.String()] = h
			}
		}
		for _, gc := range gcs {
			have := map[string]bool{}
			for _, h := range logHashes(gc.MetadataStore()) {
				have[h.String()] = true
			}
			var missing []cid.Cid
			for k, h := range all {
				if !have[k] {
					missing = append(missing, h)
				}
			}
			sort.Slice(missing, func(i, j int) bool { return missing[i].String() < missing[j].String() })
			w.deliver(gc.MetadataStore(), missing)
		}
	}
	type step struct {
		who int
		do  string
	}
	steps := []step{{0, "add-device"}, {0, "claim"}, {1, "add-device"}, {1, "alias-proof"}, {0, "send-secret:1"}, {1, "send-secret:0"}, {2, "add-device"}, {1, "app-metadata"}, {2, "send-secret:1"}, {0, "replicating"}}
	for _, s := range steps {
		ms := gcs[s.who].MetadataStore()
		var err error
		switch {
		case s.do == "add-device":
			_, err = ms.AddDeviceToGroup(w.ctx)
		case s.do == "claim":
			_, err = ms.ClaimGroupOwnership(w.ctx, gsk)
		case s.do == "app-metadata":
			_, err = ms.SendAppMetadata(w.ctx, []byte("hello"))
		case s.do == "alias-proof":
			_, err = ms.SendAliasProof(w.ctx) // an event type the index has no handler for
		case s.do == "replicating":
			_, err = ms.SendGroupReplicating(w.ctx, "https://auth.example", "replication.example")
		case strings.HasPrefix(s.do, "send-secret:"):
			var to int
			fmt.Sscanf(s.do, "send-secret:%d", &to)
			_, err = ms.SendSecret(w.ctx, gcs[to].MemberPubKey())
		}
		vmust(err)
		syncAll()
	}
	want := metaState(gcs[0].MetadataStore())
	n := len(logHashes(gcs[0].MetadataStore()))
	viol := func(kind, desc string) {
		rep.Violation("C04/"+kind, "multi-member group history [add-device claim add-device alias-proof send-secret x2 add-device app-metadata send-secret replicating]: "+desc, c04Case{Scenario: "multimember", Detail: desc})
	}
	// reference: 2 members (A, B), 3 devices, exactly one admin (A's member key)
	if c := strings.Count(strings.Split(strings.Split(want, "admins=[")[1], "]")[0], " ") + 1; c != 1 || strings.Contains(want, "admins=[]") {
		viol("admins-not-a-set", "writer reports admins "+strings.Split(strings.Split(want, "admins=")[1], "\n")[0]+" (expected exactly the claiming member once)")
	}
	for i, gc := range gcs {
		rep.AddTransitions(1)
		if s := metaState(gc.MetadataStore()); s != want {
			viol("replica-differs-from-writer", fmt.Sprintf("device %d holds the same %d entries and reports another state: %s", i, n, firstDiff(s, want)))
		}
	}
	hashes := logHashes(gcs[0].MetadataStore())
	for _, p := range plansFor(len(hashes), false) {
		r := w.newDevice("C", nextDev("m"))
		rgc := r.open(g)
		for bi, b := range p.Batches {
			var hs []cid.Cid
			for _, i := range b {
				hs = append(hs, hashes[i])
			}
			w.deliver(rgc.MetadataStore(), hs)
			if p.Reopen == bi {
				rgc = r.reopen(rgc)
			}
			rep.AddTransitions(1)
		}
		// C is not a member: own-device dependent fields do not exist in the vector, so it must equal the writers'
		s := metaState(rgc.MetadataStore())
		rep.Eval(fmt.Sprintf("multimember/batches=%d/reopen=%v/equal=%v", len(p.Batches), p.Reopen >= 0, s == want))
		if s != want {
			viol("replica-differs-from-writer", fmt.Sprintf("plan %v reopen=%d: %s", p.Batches, p.Reopen, firstDiff(s, want)))
		}
		vmust(rgc.MetadataStore().Load(w.ctx, -1))
		if s2 := metaState(rgc.MetadataStore()); s2 != want {
			viol("reindex-changes-state", fmt.Sprintf("plan %v: %s", p.Batches, firstDiff(s2, want)))
		}
		_ = rgc.Close()
		_ = r.odb.Close()
		if !thorough && len(p.Batches) > 3 {
			continue
		}
	}
	for i, gc := range gcs {
		ownBefore := metaStateOwn(gc.MetadataStore())
		ngc := devs[i].reopen(gc)
		if s := metaState(ngc.MetadataStore()); s != want {
			viol("reopen-changes-state", fmt.Sprintf("device %d: %s", i, firstDiff(s, want)))
		}
		// what the device knows about its own announcements is a function of the log too: same after a reopen (one
		// pass over the whole log) and after indexing the log once more
		if s := metaStateOwn(ngc.MetadataStore()); s != ownBefore {
			viol("reopen-changes-state", fmt.Sprintf("device %d, announcements already sent: before the reopen %s, after it %s", i, ownBefore, s))
		}
		vmust(ngc.MetadataStore().Load(w.ctx, -1))
		if s := metaStateOwn(ngc.MetadataStore()); s != ownBefore {
			viol("reindex-changes-state", fmt.Sprintf("device %d, announcements already sent: live %s, after reopen and a second pass %s", i, ownBefore, s))
		}
		gcs[i] = ngc
	}
	rep.Sample(map[string]interface{}{"scenario": "multi-member group", "entries": n, "devices": 3, "plans": len(plansFor(n, false))})
}

// c04Concurrent: two devices of one account write without having seen each other, then exchange.
func c04Concurrent(rep *vrep.Report, w *vWorld, thorough bool) {
	pairs := [][2][]mOp{
		{{{Kind: "cr-reset"}}, {{Kind: "cr-reset"}}},
		{{{Kind: "cr-enable"}}, {{Kind: "cr-disable"}}},
		{{{"enqueue", "X", 1}}, {{"block", "X", 0}}},
		{{{"enqueue", "X", 1}, {"sent", "X", 0}}, {{"received", "X", 1}}},
		{{{Kind: "cr-reset"}, {Kind: "cr-enable"}}, {{Kind: "cr-reset"}, {Kind: "cr-disable"}}},
		{{{"received", "X", 1}, {"accept", "X", 0}}, {{"block", "X", 0}, {"unblock", "X", 0}}},
	}
	for _, base := range [][]mOp{nil, {{"enqueue", "Y", 1}, {Kind: "cr-reset"}}} {
		for pi, pr := range pairs {
			d1, d2 := w.newDevice("A", nextDev("c")), w.newDevice("A", nextDev("c"))
			gc1, gc2 := d1.open(d1.accountGroup()), d2.open(d2.accountGroup())
			env := newMEnv(w.seed, gc1.MemberPubKey())
			for _, op := range base {
				_ = env.apply(w.ctx, gc1.MetadataStore(), op)
			}
			w.deliver(gc2.MetadataStore(), reverseCids(logHashes(gc1.MetadataStore())))
			for _, op := range pr[0] {
				_ = env.apply(w.ctx, gc1.MetadataStore(), op)
			}
			for _, op := range pr[1] {
				_ = env.apply(w.ctx, gc2.MetadataStore(), op)
			}
			h1, h2 := logHashes(gc1.MetadataStore()), logHashes(gc2.MetadataStore())
			w.deliver(gc1.MetadataStore(), reverseCids(h2))
			w.deliver(gc2.MetadataStore(), reverseCids(h1))
			s1, s2 := metaState(gc1.MetadataStore()), metaState(gc2.MetadataStore())
			desc := fmt.Sprintf("base %v, device 1 writes %v, device 2 writes %v, then they exchange everything", base, pr[0], pr[1])
			rep.AddTransitions(2)
			rep.Eval(fmt.Sprintf("concurrent/pair%d/base=%d/converged=%v", pi, len(base), s1 == s2))
			if s1 != s2 {
				rep.Violation("C04/concurrent-writers-diverge", desc+": the two devices hold the same entries and report different states: "+firstDiff(s1, s2), c04Case{Scenario: "concurrent", Detail: desc})
				continue
			}
			// a third device receiving everything in several orders agrees as well, also after reopen
			all := logHashes(gc1.MetadataStore())
			for oi, order := range [][]cid.Cid{all, reverseCids(all)} {
				d3 := w.newDevice("A", nextDev("c"))
				gc3 := d3.open(d3.accountGroup())
				w.deliver(gc3.MetadataStore(), order)
				s3 := metaState(gc3.MetadataStore())
				gc3 = d3.reopen(gc3)
				s3b := metaState(gc3.MetadataStore())
				rep.AddTransitions(2)
				if s3 != s1 || s3b != s1 {
					rep.Violation("C04/concurrent-writers-diverge", fmt.Sprintf("%s: a third device (delivery order %d) reports another state: %s", desc, oi, firstDiff(s3, s1)), c04Case{Scenario: "concurrent", Detail: desc})
				}
				_ = gc3.Close()
			}
			gc1b := d1.reopen(gc1)
			if s := metaState(gc1b.MetadataStore()); s != s1 {
				rep.Violation("C04/reopen-changes-state", desc+": "+firstDiff(s, s1), c04Case{Scenario: "concurrent", Detail: desc})
			}
			_ = gc1b.Close()
			_ = gc2.Close()
		}
	}
	rep.Sample(map[string]interface{}{"scenario": "concurrent writers", "pairs": len(pairs), "bases": 2})
}

func reverseCids(in []cid.Cid) []cid.Cid {
	out := make([]cid.Cid, len(in))
	for i := range in {
		out[len(in)-1-i] = in[i]
	}
	return out
}

var _ = protocoltypes.ContactState_ContactStateAdded
