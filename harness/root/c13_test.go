//go:build verif

package weshnet

import (
	"berty.tech/go-orbit-db/stores/operation"
	"context"
	"fmt"
	"github.com/libp2p/go-libp2p/core/event"
	"strings"
	"sync"
	"testing"
	"time"

	"github.com/ipfs/go-cid"

	"berty.tech/go-orbit-db/iface"
	"berty.tech/weshnet/v2/internal/zzverif/vrep"
	"berty.tech/weshnet/v2/pkg/errcode"
	"berty.tech/weshnet/v2/pkg/protocoltypes"
)

type c13Case struct {
	Store   string `json:"store"`
	N       int    `json:"entries"`
	Arrival string `json:"arrival"`
	Since   int    `json:"since"` // index into the log, -1 nil, -2 unknown id
	Until   int    `json:"until"`
	Reverse bool   `json:"reverse"`
}

// listMeta / listMsg collect the ids returned by a listing (with a guard against a hang).
func listMeta(ctx context.Context, ms *MetadataStore, since, until []byte, reverse bool) ([]string, error) {
	ch, err := ms.ListEvents(ctx, since, until, reverse)
	if err != nil {
		return nil, err
	}
	var out []string
	for {
		select {
		case e, ok := <-ch:
			if !ok {
				return out, nil
			}
			_, c, err := cid.CidFromBytes(e.EventContext.Id)
			vmust(err)
			out = append(out, c.String())
		case <-time.After(60 * time.Second):
			panic("HARNESS: metadata listing did not finish within 60s")
		}
	}
}

func listMsg(ctx context.Context, ms *MessageStore, since, until []byte, reverse bool) ([]string, error) {
	ch, err := ms.ListEvents(ctx, since, until, reverse)
	if err != nil {
		return nil, err
	}
	var out []string
	for {
		select {
		case e, ok := <-ch:
			if !ok {
				return out, nil
			}
			_, c, err := cid.CidFromBytes(e.EventContext.Id)
			vmust(err)
			out = append(out, c.String())
		case <-time.After(60 * time.Second):
			panic("HARNESS: message listing did not finish within 60s")
		}
	}
}

// c13Queries runs every (since, until, reverse) combination against the reference (append order, inclusive range).
func c13Queries(rep *vrep.Report, store string, arrival string, order []cid.Cid, list func(since, until []byte, reverse bool) ([]string, error)) {
	n := len(order)
	unknown := cidOfBytes([]byte("unknown-entry")).Bytes()
	idOf := func(i int) []byte {
		switch i {
		case -1:
			return nil
		case -2:
			return unknown
		}
		return order[i].Bytes()
	}
	for s := -2; s < n; s++ {
		for u := -2; u < n; u++ {
			for _, rev := range []bool{false, true} {
				var got []string
				var err error
				var pan interface{}
				func() {
					defer func() { pan = recover() }()
					got, err = list(idOf(s), idOf(u), rev)
				}()
				c := c13Case{Store: store, N: n, Arrival: arrival, Since: s, Until: u, Reverse: rev}
				if pan != nil {
					rep.Violation("C13/listing-panics", fmt.Sprintf("%s store, %d entries (%s): since=%d until=%d reverse=%v panics: %v", store, n, arrival, s, u, rev, pan), c)
					continue
				}
				lo, hi := 0, n-1
				if s >= 0 {
					lo = s
				}
				if u >= 0 {
					hi = u
				}
				wantErr := s == -2 || u == -2 || (lo > hi && n > 0 && s >= 0 && u >= 0)
				cls := fmt.Sprintf("%s/%s/since=%s/until=%s/reverse=%v/err=%v", store, arrival, kindOf(s), kindOf(u), rev, err != nil)
				rep.Eval(cls)
				rep.AddTransitions(1)
				if wantErr {
					if err == nil {
						rep.Violation("C13/invalid-range-accepted", fmt.Sprintf("%s store, %d entries (%s): since=%d until=%d reverse=%v returned %d events instead of an invalid-range error", store, n, arrival, s, u, rev, len(got)), c)
					} else if !errcode.Is(err, errcode.ErrCode_ErrInvalidRange) {
						rep.Violation("C13/wrong-error", fmt.Sprintf("%s store: since=%d until=%d: error is not ErrInvalidRange: %v", store, s, u, err), c)
					}
					continue
				}
				if err != nil {
					rep.Violation("C13/valid-range-refused", fmt.Sprintf("%s store, %d entries (%s): since=%d until=%d reverse=%v: %v", store, n, arrival, s, u, rev, err), c)
					continue
				}
				var want []string
				for i := lo; i <= hi && i < n; i++ {
					want = append(want, order[i].String())
				}
				if rev {
					for i, j := 0, len(want)-1; i < j; i, j = i+1, j-1 {
						want[i], want[j] = want[j], want[i]
					}
				}
				if strings.Join(got, ",") != strings.Join(want, ",") {
					kind := "wrong-range"
					if len(got) == len(want) {
						kind = "wrong-order"
					}
					rep.Violation("C13/"+kind, fmt.Sprintf("%s store, %d entries (%s): since=%d until=%d reverse=%v returned entries %v of the log, expected %v", store, n, arrival, s, u, rev, indexList(got, order), indexList(want, order)), c)
				}
			}
		}
	}
}

func kindOf(i int) string {
	switch i {
	case -1:
		return "nil"
	case -2:
		return "unknown"
	}
	return "entry"
}

func indexList(ids []string, order []cid.Cid) []int {
	var out []int
	for _, id := range ids {
		idx := -1
		for i, c := range order {
			if c.String() == id {
				idx = i
			}
		}
		out = append(out, idx)
	}
	return out
}

// arrivals: how the n entries reach the listing replica
var c13Arrivals = []string{"written-locally", "one-batch-newest-first", "one-batch-oldest-first", "entry-by-entry", "mixed-local-then-replicated", "written-locally-then-reopened", "replicated-then-reopened"}

func c13Run(rep *vrep.Report, w *vWorld, n int) {
	// writer: account group metadata (n contact-request resets / enables) and n messages
	d := w.newDevice("A", nextDev("l"))
	gc := d.open(d.accountGroup())
	env := newMEnv(w.seed, gc.MemberPubKey())
	// the reading replicas exist before anything is written: they register the writer's chain key at counter 0,
	// so every message is sealed after the announcement they hold
	replicas := map[string]*vDevice{}
	replicaGC := map[string]*GroupContext{}
	for _, arrival := range c13Arrivals {
		switch arrival {
		case "written-locally", "written-locally-then-reopened", "mixed-local-then-replicated":
			continue
		}
		r := w.newDevice("A", nextDev("l"))
		replicas[arrival] = r
		replicaGC[arrival] = r.open(r.accountGroup())
		c13ShareChainKey(w, gc, replicaGC[arrival])
	}
	opsCycle := []mOp{{Kind: "cr-reset"}, {Kind: "cr-enable"}, {"enqueue", "X", 1}, {Kind: "cr-disable"}, {"block", "X", 0}, {"unblock", "X", 0}, {Kind: "credential", Variant: 1}}
	half := n / 2
	mixed := w.newDevice("A", nextDev("l"))
	mgc := mixed.open(mixed.accountGroup())
	c13ShareChainKey(w, gc, mgc)
	for _, rgc := range replicaGC {
		c13ShareChainKey(w, mgc, rgc)
	}
	for i := 0; i < half; i++ {
		vmust(env.apply(w.ctx, gc.MetadataStore(), opsCycle[i%len(opsCycle)]))
		_, err := gc.MessageStore().AddMessage(w.ctx, []byte(fmt.Sprintf("msg-%d", i)))
		vmust(err)
	}
	// the "mixed" replica receives the first half now and writes the rest itself
	w.deliver(mgc.MetadataStore(), reverseCids(logHashes(gc.MetadataStore())))
	w.deliver(mgc.MessageStore(), reverseCids(logHashes(gc.MessageStore())))
	var mixedMeta, mixedMsg []cid.Cid
	mixedMeta = append(mixedMeta, logHashes(gc.MetadataStore())...)
	mixedMsg = append(mixedMsg, logHashes(gc.MessageStore())...)
	for i := half; i < n; i++ {
		vmust(env.apply(w.ctx, gc.MetadataStore(), opsCycle[i%len(opsCycle)]))
		_, err := gc.MessageStore().AddMessage(w.ctx, []byte(fmt.Sprintf("msg-%d", i)))
		vmust(err)
		menv := newMEnv(w.seed, mgc.MemberPubKey())
		vmust(menv.apply(w.ctx, mgc.MetadataStore(), opsCycle[i%len(opsCycle)]))
		_, err = mgc.MessageStore().AddMessage(w.ctx, []byte(fmt.Sprintf("mixed-%d", i)))
		vmust(err)
	}
	metaOrder, msgOrder := logHashes(gc.MetadataStore()), logHashes(gc.MessageStore())
	if len(metaOrder) != n || len(msgOrder) != n {
		panic(fmt.Sprintf("HARNESS: expected %d entries, have %d/%d", n, len(metaOrder), len(msgOrder)))
	}
	for _, h := range logHashes(mgc.MetadataStore())[half:] {
		mixedMeta = append(mixedMeta, h)
	}
	for _, h := range logHashes(mgc.MessageStore())[half:] {
		mixedMsg = append(mixedMsg, h)
	}
	for _, arrival := range c13Arrivals {
		var lgc *GroupContext
		mo, so := metaOrder, msgOrder
		switch arrival {
		case "written-locally":
			lgc = gc
		case "written-locally-then-reopened":
			continue // done last (it closes the writer)
		case "mixed-local-then-replicated":
			lgc = mgc
			mo, so = mixedMeta, mixedMsg
		default:
			r := replicas[arrival]
			lgc = replicaGC[arrival]
			switch arrival {
			case "one-batch-newest-first", "replicated-then-reopened":
				w.deliver(lgc.MetadataStore(), reverseCids(metaOrder))
				w.deliver(lgc.MessageStore(), reverseCids(msgOrder))
			case "one-batch-oldest-first":
				w.deliver(lgc.MetadataStore(), metaOrder)
				w.deliver(lgc.MessageStore(), msgOrder)
			case "entry-by-entry":
				for i := range metaOrder {
					w.deliver(lgc.MetadataStore(), metaOrder[i:i+1])
					w.deliver(lgc.MessageStore(), msgOrder[i:i+1])
				}
			}
			if arrival == "replicated-then-reopened" {
				lgc = r.reopen(lgc)
			}
		}
		c13ListBoth(rep, w, lgc, arrival, mo, so)
	}
	gc = d.reopen(gc)
	c13ListBoth(rep, w, gc, "written-locally-then-reopened", metaOrder, msgOrder)
	rep.AddStates(int64(len(c13Arrivals)))
}

func c13ListBoth(rep *vrep.Report, w *vWorld, lgc *GroupContext, arrival string, metaOrder, msgOrder []cid.Cid) {
	if got := len(logHashes(lgc.MetadataStore())); got != len(metaOrder) {
		panic(fmt.Sprintf("HARNESS: %s: replica has %d metadata entries, expected %d", arrival, got, len(metaOrder)))
	}
	c13Queries(rep, "metadata", arrival, metaOrder, func(s, u []byte, rev bool) ([]string, error) {
		return listMeta(w.ctx, lgc.MetadataStore(), s, u, rev)
	})
	c13Queries(rep, "message", arrival, msgOrder, func(s, u []byte, rev bool) ([]string, error) {
		return listMsg(w.ctx, lgc.MessageStore(), s, u, rev)
	})
}

// c13ShareChainKey lets `reader` open the messages of `writer`'s device (same account, other device).
func c13ShareChainKey(w *vWorld, writer, reader *GroupContext) {
	ann, err := writer.secretStore.GetShareableChainKey(w.ctx, writer.Group(), reader.MemberPubKey())
	vmust(err)
	vmust(reader.secretStore.RegisterChainKey(w.ctx, reader.Group(), writer.DevicePubKey(), ann))
	ann2, err := reader.secretStore.GetShareableChainKey(w.ctx, reader.Group(), writer.MemberPubKey())
	vmust(err)
	vmust(writer.secretStore.RegisterChainKey(w.ctx, writer.Group(), reader.DevicePubKey(), ann2))
}

func TestVerifC13(t *testing.T) {
	rep := vrep.New("C13")
	defer func() {
		if err := rep.Finish(); err != nil {
			t.Fatal(err)
		}
		if rep.NViolations() > 0 {
			t.Fail()
		}
	}()
	maxN := 6
	if vrep.Thorough() {
		maxN = 12
	}
	var wg sync.WaitGroup
	sem := make(chan struct{}, 8)
	for n := 0; n <= maxN; n++ {
		n := n
		wg.Add(1)
		sem <- struct{}{}
		go func() {
			defer func() { <-sem; wg.Done() }()
			w := newVWorld(t, vrep.Seed())
			defer w.close()
			c13Run(rep, w, n)
		}()
	}
	wg.Wait()
	rep.Sample(map[string]interface{}{"log_sizes": fmt.Sprintf("0..%d", maxN), "arrivals": c13Arrivals, "queries_per_log": "every (since, until) over entries + nil + unknown id, x reverse"})
	{
		w := newVWorld(t, vrep.Seed())
		c13Concurrent(rep, w)
		w.close()
	}
	c13RPC(rep, t, 3)
	if vrep.Thorough() {
		c13RPC(rep, t, 6)
	}
	// parameter consistency rules of the list RPCs: all 2^5 combinations
	for mask := 0; mask < 32; mask++ {
		var sinceID, untilID []byte
		if mask&1 != 0 {
			sinceID = []byte{1}
		}
		if mask&2 != 0 {
			untilID = []byte{2}
		}
		sinceNow, untilNow, reverse := mask&4 != 0, mask&8 != 0, mask&16 != 0
		err := checkParametersConsistency(sinceID, untilID, sinceNow, untilNow, reverse)
		// documented rules: since_id excludes since_now; until_id excludes until_now; not both *_now; reverse order is
		// refused when new events are subscribed to (no until bound at all)
		want := (sinceID != nil && sinceNow) || (untilID != nil && untilNow) || (sinceNow && untilNow) || (untilID == nil && !untilNow && reverse)
		rep.Eval(fmt.Sprintf("params/refused=%v", err != nil))
		rep.AddTransitions(1)
		if (err != nil) != want {
			rep.Violation("C13/parameter-consistency", fmt.Sprintf("since_id=%v until_id=%v since_now=%v until_now=%v reverse=%v: refused=%v, documented rule says %v", sinceID != nil, untilID != nil, sinceNow, untilNow, reverse, err != nil, want), mask)
		}
	}
	rep.AddTraces(rep.Transitions)
}

var _ iface.Store

// c13RPC: GroupMetadataList / GroupMessageList of a real service, every terminating (since, until|until_now, reverse)
// combination against the log order of the account group's stores.
func c13RPC(rep *vrep.Report, t *testing.T, n int) {
	ctx := context.Background()
	tp, cleanup := NewTestingProtocol(ctx, t, nil, nil)
	defer cleanup()
	svc := tp.Service.(*service)
	cfg, err := tp.Service.ServiceGetConfiguration(ctx, &protocoltypes.ServiceGetConfiguration_Request{})
	vmust(err)
	for i := 0; i < n; i++ {
		if i%2 == 0 {
			_, err = tp.Service.ContactRequestResetReference(ctx, &protocoltypes.ContactRequestResetReference_Request{})
		} else {
			_, err = tp.Service.ContactRequestEnable(ctx, &protocoltypes.ContactRequestEnable_Request{})
		}
		vmust(err)
		_, err = tp.Service.AppMessageSend(ctx, &protocoltypes.AppMessageSend_Request{GroupPk: cfg.AccountGroupPk, Payload: []byte(fmt.Sprintf("m%d", i))})
		vmust(err)
	}
	gc := svc.getAccountGroup()
	// the service appends its own device entry and chain-key announcement asynchronously after start: take the
	// reference order only when that has happened (on a loaded machine it can be late)
	waitOwnAnnouncement(gc)
	metaOrder, msgOrder := logHashes(gc.MetadataStore()), logHashes(gc.MessageStore())
	unknown := cidOfBytes([]byte("unknown-entry")).Bytes()
	run := func(store string, order []cid.Cid, call func(since, until []byte, untilNow, reverse bool, expect int, patience time.Duration) ([]string, error)) {
		retries := 0
		idOf := func(i int) []byte {
			switch i {
			case -1:
				return nil
			case -2:
				return unknown
			}
			return order[i].Bytes()
		}
		nn := len(order)
		for s := -2; s < nn; s++ {
			for u := -2; u < nn; u++ {
				for _, rev := range []bool{false, true} {
					untilNow := u == -1 // no upper bound: ask for "until now" so that the stream ends
					lo, hi := 0, nn-1
					if s >= 0 {
						lo = s
					}
					if u >= 0 {
						hi = u
					}
					expect := hi - lo + 1
					if expect < 0 || s == -2 || u == -2 {
						expect = 0
					}
					wantErr := s == -2 || u == -2 || (s >= 0 && u >= 0 && lo > hi)
					got, err := call(idOf(s), idOf(u), untilNow, rev, expect, 5*time.Second)
					if !wantErr && (err != nil || len(got) != expect) && retries < 4 {
						retries++
						// a slow machine must not look like a short listing: ask again with a long deadline
						got, err = call(idOf(s), idOf(u), untilNow, rev, expect, 45*time.Second)
					}
					c := c13Case{Store: store + "-rpc", N: nn, Arrival: "service", Since: s, Until: u, Reverse: rev}
					rep.Eval(fmt.Sprintf("rpc/%s/since=%s/until=%s/reverse=%v/err=%v", store, kindOf(s), kindOf(u), rev, err != nil))
					rep.AddTransitions(1)
					if wantErr {
						if err == nil {
							rep.Violation("C13/rpc-invalid-range-accepted", fmt.Sprintf("%s list RPC, %d entries: since=%d until=%d reverse=%v returned %d events", store, nn, s, u, rev, len(got)), c)
						}
						continue
					}
					if err != nil {
						rep.Violation("C13/rpc-valid-range-refused", fmt.Sprintf("%s list RPC, %d entries: since=%d until=%d reverse=%v: %v", store, nn, s, u, rev, err), c)
						continue
					}
					var want []string
					for i := lo; i <= hi && i < nn; i++ {
						want = append(want, order[i].String())
					}
					if rev {
						for i, j := 0, len(want)-1; i < j; i, j = i+1, j-1 {
							want[i], want[j] = want[j], want[i]
						}
					}
					if strings.Join(got, ",") != strings.Join(want, ",") {
						rep.Violation("C13/rpc-wrong-listing", fmt.Sprintf("%s list RPC, %d entries: since=%d until=%d reverse=%v returned entries %v, expected %v", store, nn, s, u, rev, indexList(got, order), indexList(want, order)), c)
					}
				}
			}
		}
	}
	run("metadata", metaOrder, func(since, until []byte, untilNow, reverse bool, expect int, patience time.Duration) ([]string, error) {
		cctx, cancel := context.WithTimeout(ctx, patience)
		defer cancel()
		st := &recStream[protocoltypes.GroupMetadataEvent]{ctx: cctx}
		// with an until identifier the handler keeps the stream open after the last event (only the caller's
		// context ends it): end it shortly after the expected number of events has arrived, so that an extra
		// event would still be seen
		endSoon := func() { go func() { time.Sleep(40 * time.Millisecond); cancel() }() }
		if !untilNow {
			if expect == 0 {
				endSoon()
			} else {
				st.onSend = func(n int) {
					if n == expect {
						endSoon()
					}
				}
			}
		}
		err := svc.GroupMetadataList(&protocoltypes.GroupMetadataList_Request{GroupPk: cfg.AccountGroupPk, SinceId: since, UntilId: until, UntilNow: untilNow, ReverseOrder: reverse}, st)
		var out []string
		for _, m := range st.msgs {
			_, c, e := cid.CidFromBytes(m.EventContext.Id)
			vmust(e)
			out = append(out, c.String())
		}
		return out, err
	})
	run("message", msgOrder, func(since, until []byte, untilNow, reverse bool, expect int, patience time.Duration) ([]string, error) {
		cctx, cancel := context.WithTimeout(ctx, patience)
		defer cancel()
		st := &recStream[protocoltypes.GroupMessageEvent]{ctx: cctx}
		// with an until identifier the handler keeps the stream open after the last event (only the caller's
		// context ends it): end it shortly after the expected number of events has arrived, so that an extra
		// event would still be seen
		endSoon := func() { go func() { time.Sleep(40 * time.Millisecond); cancel() }() }
		if !untilNow {
			if expect == 0 {
				endSoon()
			} else {
				st.onSend = func(n int) {
					if n == expect {
						endSoon()
					}
				}
			}
		}
		err := svc.GroupMessageList(&protocoltypes.GroupMessageList_Request{GroupPk: cfg.AccountGroupPk, SinceId: since, UntilId: until, UntilNow: untilNow, ReverseOrder: reverse}, st)
		var out []string
		for _, m := range st.msgs {
			_, c, e := cid.CidFromBytes(m.EventContext.Id)
			vmust(e)
			out = append(out, c.String())
		}
		return out, err
	})
	// a write that lands while an until_now listing is still being streamed: the listing is the log as it was when
	// the request was made, in order; the new event must not be mixed into it
	waitBus := func(bus event.Bus, typ interface{}) func() {
		sub, err := bus.Subscribe(typ)
		vmust(err)
		return func() {
			defer sub.Close()
			select {
			case <-sub.Out():
			case <-time.After(60 * time.Second):
				panic("HARNESS: the event of a local write was not emitted within 60s")
			}
		}
	}
	for _, rev := range []bool{false, true} {
		for _, store := range []string{"metadata", "message"} {
			var got, want []string
			var lerr error
			if store == "metadata" {
				for _, c := range logHashes(gc.MetadataStore()) {
					want = append(want, c.String())
				}
				st := &recStream[protocoltypes.GroupMetadataEvent]{ctx: ctx}
				st.onSend = func(n int) {
					if n == 1 {
						wait := waitBus(gc.MetadataStore().EventBus(), new(*protocoltypes.GroupMetadataEvent))
						_, err := tp.Service.ContactRequestResetReference(ctx, &protocoltypes.ContactRequestResetReference_Request{})
						vmust(err)
						wait()
					}
				}
				lerr = svc.GroupMetadataList(&protocoltypes.GroupMetadataList_Request{GroupPk: cfg.AccountGroupPk, UntilNow: true, ReverseOrder: rev}, st)
				for _, m := range st.all() {
					_, c, e := cid.CidFromBytes(m.EventContext.Id)
					vmust(e)
					got = append(got, c.String())
				}
			} else {
				for _, c := range logHashes(gc.MessageStore()) {
					want = append(want, c.String())
				}
				st := &recStream[protocoltypes.GroupMessageEvent]{ctx: ctx}
				st.onSend = func(n int) {
					if n == 1 {
						wait := waitBus(gc.MessageStore().EventBus(), new(*protocoltypes.GroupMessageEvent))
						_, err := tp.Service.AppMessageSend(ctx, &protocoltypes.AppMessageSend_Request{GroupPk: cfg.AccountGroupPk, Payload: []byte("late")})
						vmust(err)
						wait()
					}
				}
				lerr = svc.GroupMessageList(&protocoltypes.GroupMessageList_Request{GroupPk: cfg.AccountGroupPk, UntilNow: true, ReverseOrder: rev}, st)
				for _, m := range st.all() {
					_, c, e := cid.CidFromBytes(m.EventContext.Id)
					vmust(e)
					got = append(got, c.String())
				}
			}
			if rev {
				for i, j := 0, len(want)-1; i < j; i, j = i+1, j-1 {
					want[i], want[j] = want[j], want[i]
				}
			}
			same := lerr == nil && strings.Join(got, ",") == strings.Join(want, ",")
			rep.Eval(fmt.Sprintf("rpc/%s/until-now-with-write-during-listing/reverse=%v/snapshot=%v", store, rev, same))
			rep.AddTransitions(1)
			if !same {
				rep.Violation("C13/rpc-listing-mixed-with-live-event", fmt.Sprintf("%s list RPC (until_now, reverse=%v) while an entry is written during the listing: err=%v, returned %d events, the log held %d when the request was made; returned order differs from the log order of that moment", store, rev, lerr, len(got), len(want)), c13Case{Store: store + "-rpc-live", N: len(want), Arrival: "service", Since: -1, Until: -1, Reverse: rev})
			}
		}
	}
	// an entry that does not open (an operation whose value is not a sealed group envelope, as any holder of the log's
	// write access can append) in the middle of the metadata log: listings skip it and stay complete and ordered
	{
		ms := gc.MetadataStore()
		_, err := ms.AddOperation(ctx, operation.NewOperation(nil, "ADD", []byte("not a sealed group envelope")), nil)
		vmust(err)
		_, err = tp.Service.ContactRequestEnable(ctx, &protocoltypes.ContactRequestEnable_Request{})
		vmust(err)
		var want []string
		for _, e := range ms.OpLog().Values().Slice() {
			if _, _, oerr := vOpenMetadataEntry(ms.OpLog(), e, gc.Group()); oerr == nil {
				want = append(want, e.GetHash().String())
			}
		}
		total := ms.OpLog().Len()
		for _, rev := range []bool{false, true} {
			exp := append([]string{}, want...)
			if rev {
				for i, j := 0, len(exp)-1; i < j; i, j = i+1, j-1 {
					exp[i], exp[j] = exp[j], exp[i]
				}
			}
			// store API
			var got []string
			nilEvents := 0
			ch, lerr := ms.ListEvents(ctx, nil, nil, rev)
			if lerr == nil {
				for e := range ch {
					if e == nil || e.EventContext == nil {
						nilEvents++
						continue
					}
					_, c, cerr := cid.CidFromBytes(e.EventContext.Id)
					vmust(cerr)
					got = append(got, c.String())
				}
			}
			okStore := lerr == nil && nilEvents == 0 && strings.Join(got, ",") == strings.Join(exp, ",")
			rep.Eval(fmt.Sprintf("unreadable-entry/store/reverse=%v/ok=%v", rev, okStore))
			rep.AddTransitions(1)
			if !okStore {
				rep.Violation("C13/listing-with-unreadable-entry", fmt.Sprintf("metadata store listing (reverse=%v) of a log of %d entries of which one does not open: err=%v, %d empty events, %d of %d readable events returned in order=%v", rev, total, lerr, nilEvents, len(got), len(exp), strings.Join(got, ",") == strings.Join(exp, ",")), c13Case{Store: "metadata-unreadable", N: total, Arrival: "service", Since: -1, Until: -1, Reverse: rev})
			}
			// RPC
			st := &recStream[protocoltypes.GroupMetadataEvent]{ctx: ctx}
			rerr := svc.GroupMetadataList(&protocoltypes.GroupMetadataList_Request{GroupPk: cfg.AccountGroupPk, UntilNow: true, ReverseOrder: rev}, st)
			var rgot []string
			for _, m := range st.all() {
				_, c, cerr := cid.CidFromBytes(m.EventContext.Id)
				vmust(cerr)
				rgot = append(rgot, c.String())
			}
			okRPC := rerr == nil && strings.Join(rgot, ",") == strings.Join(exp, ",")
			rep.Eval(fmt.Sprintf("unreadable-entry/rpc/reverse=%v/ok=%v", rev, okRPC))
			rep.AddTransitions(1)
			if !okRPC {
				rep.Violation("C13/rpc-listing-with-unreadable-entry", fmt.Sprintf("GroupMetadataList (until_now, reverse=%v) over a log of %d entries of which one does not open: err=%v, returned %d of %d readable events", rev, total, rerr, len(rgot), len(exp)), c13Case{Store: "metadata-unreadable-rpc", N: total, Arrival: "service", Since: -1, Until: -1, Reverse: rev})
			}
		}
	}
	rep.AddStates(1)
	rep.Sample(map[string]interface{}{"part": "list RPCs", "metadata_entries": len(metaOrder), "message_entries": len(msgOrder)})
}

// c13Concurrent: two devices of one account append at the same time (neither has seen the other's entries), then
// exchange everything; a third device receives the lot in the opposite order. All of them hold the same entries and
// must list them in the same order, forwards and reversed, for the metadata and the message log.
func c13Concurrent(rep *vrep.Report, w *vWorld) {
	ctx := w.ctx
	d1, d2, d3 := w.newDevice("A", nextDev("y")), w.newDevice("A", nextDev("y")), w.newDevice("A", nextDev("y"))
	gc1, gc2, gc3 := d1.open(d1.accountGroup()), d2.open(d2.accountGroup()), d3.open(d3.accountGroup())
	c13ShareChainKey(w, gc1, gc2)
	c13ShareChainKey(w, gc1, gc3)
	c13ShareChainKey(w, gc2, gc3)
	env1, env2 := newMEnv(w.seed, gc1.MemberPubKey()), newMEnv(w.seed, gc2.MemberPubKey())
	for i, op := range []mOp{{Kind: "cr-reset"}, {Kind: "cr-enable"}} {
		vmust(env1.apply(ctx, gc1.MetadataStore(), op))
		vmust(env2.apply(ctx, gc2.MetadataStore(), op))
		_, err := gc1.MessageStore().AddMessage(ctx, []byte(fmt.Sprintf("one-%d", i)))
		vmust(err)
		_, err = gc2.MessageStore().AddMessage(ctx, []byte(fmt.Sprintf("two-%d", i)))
		vmust(err)
	}
	m1, m2 := logHashes(gc1.MetadataStore()), logHashes(gc2.MetadataStore())
	s1, s2 := logHashes(gc1.MessageStore()), logHashes(gc2.MessageStore())
	w.deliver(gc1.MetadataStore(), reverseCids(m2))
	w.deliver(gc2.MetadataStore(), reverseCids(m1))
	w.deliver(gc1.MessageStore(), reverseCids(s2))
	w.deliver(gc2.MessageStore(), reverseCids(s1))
	w.deliver(gc3.MetadataStore(), append(append([]cid.Cid{}, m2...), m1...))
	w.deliver(gc3.MessageStore(), append(append([]cid.Cid{}, s1...), s2...))
	// on one replica, with concurrent entries in the range: the reversed listing is the exact reverse of the forward one
	for gi, gc := range []*GroupContext{gc1, gc2, gc3} {
		fwd, err := listMeta(ctx, gc.MetadataStore(), nil, nil, false)
		vmust(err)
		bwd, err := listMeta(ctx, gc.MetadataStore(), nil, nil, true)
		vmust(err)
		fm, err := listMsg(ctx, gc.MessageStore(), nil, nil, false)
		vmust(err)
		bm, err := listMsg(ctx, gc.MessageStore(), nil, nil, true)
		vmust(err)
		rev := func(x []string) string {
			y := append([]string{}, x...)
			for i, j := 0, len(y)-1; i < j; i, j = i+1, j-1 {
				y[i], y[j] = y[j], y[i]
			}
			return strings.Join(y, ",")
		}
		ok := rev(fwd) == strings.Join(bwd, ",") && rev(fm) == strings.Join(bm, ",")
		rep.Eval(fmt.Sprintf("concurrent-writers/reverse-is-exact-reverse=%v", ok))
		if !ok {
			rep.Violation("C13/reverse-not-exact-reverse", fmt.Sprintf("replica %d holds entries written concurrently by two devices: its reversed listing is not the exact reverse of its forward listing (metadata: %v, messages: %v)", gi, rev(fwd) == strings.Join(bwd, ","), rev(fm) == strings.Join(bm, ",")), c13Case{Store: "concurrent-reverse", N: len(fwd), Arrival: "concurrent", Since: -1, Until: -1, Reverse: true})
		}
	}
	for _, rev := range []bool{false, true} {
		var metas, msgs []string
		for _, gc := range []*GroupContext{gc1, gc2, gc3} {
			l, err := listMeta(ctx, gc.MetadataStore(), nil, nil, rev)
			vmust(err)
			metas = append(metas, strings.Join(l, ","))
			l2, err := listMsg(ctx, gc.MessageStore(), nil, nil, rev)
			vmust(err)
			msgs = append(msgs, strings.Join(l2, ","))
		}
		okMeta := metas[0] == metas[1] && metas[1] == metas[2] && strings.Count(metas[0], ",") == len(m1)+len(m2)-1
		okMsg := msgs[0] == msgs[1] && msgs[1] == msgs[2] && strings.Count(msgs[0], ",") == len(s1)+len(s2)-1
		rep.Eval(fmt.Sprintf("concurrent-writers/reverse=%v/metadata-same=%v/messages-same=%v", rev, okMeta, okMsg))
		rep.AddTransitions(6)
		if !okMeta {
			rep.Violation("C13/replicas-list-differently", fmt.Sprintf("metadata log, two devices wrote concurrently and exchanged everything (reverse=%v): the three replicas hold the same %d entries and list them in different orders", rev, len(m1)+len(m2)), c13Case{Store: "metadata-concurrent", N: len(m1) + len(m2), Arrival: "concurrent", Since: -1, Until: -1, Reverse: rev})
		}
		if !okMsg {
			rep.Violation("C13/replicas-list-differently", fmt.Sprintf("message log, two devices wrote concurrently and exchanged everything (reverse=%v): the three replicas hold the same %d entries and list them in different orders (or not all of them)", rev, len(s1)+len(s2)), c13Case{Store: "message-concurrent", N: len(s1) + len(s2), Arrival: "concurrent", Since: -1, Until: -1, Reverse: rev})
		}
	}
	rep.AddStates(1)
}
