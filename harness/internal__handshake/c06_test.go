//go:build verif

package handshake

import (
	"berty.tech/weshnet/v2/pkg/protoio"
	"bytes"
	"context"
	"crypto/ed25519"
	crand "crypto/rand"
	"crypto/sha256"
	"encoding/hex"
	"errors"
	"fmt"
	"io"
	"sort"
	"sync"
	"testing"
	"time"

	p2pcrypto "github.com/libp2p/go-libp2p/core/crypto"
	"go.uber.org/zap"
	"golang.org/x/crypto/curve25519"
	"golang.org/x/crypto/nacl/box"
	"google.golang.org/protobuf/proto"

	"berty.tech/weshnet/v2/internal/zzverif/vrep"
	"berty.tech/weshnet/v2/pkg/cryptoutil"
)

func hsKey(seed int64, label string) p2pcrypto.PrivKey {
	h := sha256.Sum256([]byte(fmt.Sprintf("verif-hs/%d/%s", seed, label)))
	std := ed25519.NewKeyFromSeed(h[:])
	sk, _, err := p2pcrypto.KeyPairFromStdKey(&std)
	if err != nil {
		panic(err)
	}
	return sk
}

// ---- scripted peer: the honest party runs the real code; whenever it reads, the script supplies the frame,
// whenever it writes, the frame is recorded. Strictly alternating, hence deterministic.

type scriptedIO struct {
	written [][]byte
	next    func(written [][]byte) ([]byte, error) // frame bytes of the message to deliver
	reads   int
}

func (s *scriptedIO) WriteMsg(m proto.Message) error {
	b, err := proto.Marshal(m)
	if err != nil {
		return err
	}
	s.written = append(s.written, b)
	return nil
}

func (s *scriptedIO) ReadMsg(m proto.Message) error {
	s.reads++
	b, err := s.next(s.written)
	if err != nil {
		return err
	}
	if len(b) > 2048 {
		return io.ErrShortBuffer // the stream reader used by the contact-request manager is limited to 2048 bytes
	}
	return proto.Unmarshal(b, m)
}

func frameHello(pub []byte) []byte {
	b, _ := proto.Marshal(&HelloPayload{EphemeralPubKey: pub})
	return b
}
func frameBox(bx []byte) []byte { b, _ := proto.Marshal(&BoxEnvelope{Box: bx}); return b }
func frameAck(ok bool) []byte {
	b, _ := proto.Marshal(&RequesterAcknowledgePayload{Success: ok})
	return b
}

// ---- attacker knowledge

type knownSig struct {
	signer string // "A", "B", "M"
	pub    []byte // marshalled libp2p public key of the signer
	value  []byte // the value that was signed
	sig    []byte
}

type ephem struct {
	name string
	pub  [32]byte
	priv *[32]byte // nil when the attacker does not know it
	low  bool
}

type knowledge struct {
	frames [][]byte
	names  []string
	sigs   []knownSig
	ephems []ephem
}

func (k *knowledge) addFrame(name string, f []byte) {
	for _, x := range k.frames {
		if bytes.Equal(x, f) {
			return
		}
	}
	k.frames = append(k.frames, f)
	k.names = append(k.names, name)
}

func (k *knowledge) clone() *knowledge {
	n := &knowledge{}
	n.frames = append(n.frames, k.frames...)
	n.names = append(n.names, k.names...)
	n.sigs = append(n.sigs, k.sigs...)
	n.ephems = append(n.ephems, k.ephems...)
	return n
}

var lowOrderHex = []string{
	"0000000000000000000000000000000000000000000000000000000000000000",
	"0100000000000000000000000000000000000000000000000000000000000000",
	"e0eb7a7c3b41b8ae1656e3faf19fc46ada098deb9c32b1fd866205165f49b800",
	"5f9c95bca3508c24b1d0b1559c83ef5b04445cc4581c8e86d8224eddd09f1157",
	"ecffffffffffffffffffffffffffffffffffffffffffffffffffffffffffff7f",
	"edffffffffffffffffffffffffffffffffffffffffffffffffffffffffffff7f",
	"eeffffffffffffffffffffffffffffffffffffffffffffffffffffffffffff7f",
	"cdeb7a7c3b41b8ae1656e3faf19fc46ada098deb9c32b1fd866205165f49b880",
	"4c9c95bca3508c24b1d0b1559c83ef5b04445cc4581c8e86d8224eddd09f11d7",
	"d9ffffffffffffffffffffffffffffffffffffffffffffffffffffffffffffff",
	"daffffffffffffffffffffffffffffffffffffffffffffffffffffffffffffff",
	"dbffffffffffffffffffffffffffffffffffffffffffffffffffffffffffffff",
}

func lowOrderPoints() []ephem {
	var out []ephem
	for i, h := range lowOrderHex {
		b, _ := hex.DecodeString(h)
		var e ephem
		e.name = fmt.Sprintf("low-order#%d", i)
		copy(e.pub[:], b)
		probe := [32]byte{1}
		if _, err := curve25519.X25519(probe[:], e.pub[:]); err != nil {
			e.low = true
		} else {
			// encodings with bit 255 set: this implementation masks the bit, so the point is an ordinary one whose
			// discrete log nobody knows; it stays in the alphabet as a non-canonical ephemeral
			e.name = fmt.Sprintf("non-canonical#%d", i)
		}
		out = append(out, e)
	}
	return out
}

// sharedWith computes what box.Precompute gives the honest party: the attacker can compute it when it knows the
// private scalar of its ephemeral, or when its ephemeral is low-order (the X25519 output is then zero whatever
// the honest private key is).
func sharedWith(e ephem, peerPub *[32]byte) (*[32]byte, bool) {
	var out [32]byte
	if e.priv != nil {
		box.Precompute(&out, peerPub, e.priv)
		return &out, true
	}
	if e.low {
		var zeroPriv [32]byte
		zeroPriv[0] = 8 // any scalar: the product with a low-order point is the neutral element after clamping
		box.Precompute(&out, &e.pub, &zeroPriv)
		return &out, true
	}
	return nil, false
}

type party struct {
	name string
	sk   p2pcrypto.PrivKey
	pub  []byte // marshalled public key
	mont *[32]byte
}

func newParty(seed int64, name string) *party {
	sk := hsKey(seed, name)
	pub, _ := p2pcrypto.MarshalPublicKey(sk.GetPublic())
	mp, err := cryptoutil.EdwardsToMontgomeryPub(sk.GetPublic())
	if err != nil {
		panic(err)
	}
	return &party{name: name, sk: sk, pub: pub, mont: mp}
}

// runResponder runs the real responder code of `self` against a scripted peer.
func runResponder(self *party, script func(slot int, written [][]byte) ([]byte, error)) (result p2pcrypto.PubKey, err error, written [][]byte, panicked interface{}) {
	sio := &scriptedIO{}
	slot := 0
	sio.next = func(w [][]byte) ([]byte, error) { slot++; return script(slot, w) }
	func() {
		defer func() {
			if r := recover(); r != nil {
				panicked = r
			}
		}()
		result, err = ResponseUsingReaderWriter(context.Background(), zap.NewNop(), sio, sio, self.sk)
	}()
	return result, err, sio.written, panicked
}

func runRequester(self *party, target p2pcrypto.PubKey, script func(slot int, written [][]byte) ([]byte, error)) (err error, written [][]byte, panicked interface{}) {
	sio := &scriptedIO{}
	slot := 0
	sio.next = func(w [][]byte) ([]byte, error) { slot++; return script(slot, w) }
	func() {
		defer func() {
			if r := recover(); r != nil {
				panicked = r
			}
		}()
		err = RequestUsingReaderWriter(context.Background(), zap.NewNop(), sio, sio, self.sk, target)
	}()
	return err, sio.written, panicked
}

func helloPub(frame []byte) *[32]byte {
	h := &HelloPayload{}
	if proto.Unmarshal(frame, h) != nil || len(h.EphemeralPubKey) != 32 {
		return nil
	}
	var p [32]byte
	copy(p[:], h.EphemeralPubKey)
	return &p
}

func openBox(frame []byte, key *[32]byte, nonce *[24]byte) []byte {
	be := &BoxEnvelope{}
	if proto.Unmarshal(frame, be) != nil {
		return nil
	}
	out, ok := box.OpenAfterPrecomputation(nil, be.Box, nonce, key)
	if !ok {
		return nil
	}
	return out
}

func x25519(priv *[32]byte, pub *[32]byte) *[32]byte {
	var out [32]byte
	box.Precompute(&out, pub, priv)
	return &out
}

// ---- harvest sessions: real honest parties against an attacker M that follows the message format but chooses
// its ephemeral key; everything M can see or open is added to its knowledge.

type world struct {
	A, B, M *party
	Mmont   *[32]byte // M's X25519 private scalar
}

func (w *world) freshEphem(name string) ephem {
	pub, priv, err := box.GenerateKey(crand.Reader)
	if err != nil {
		panic(err)
	}
	return ephem{name: name, pub: *pub, priv: priv}
}

// harvestPassive: honest A requests honest B; M records the five frames.
func (w *world) harvestPassive(k *knowledge) {
	frames := honestRun(w.A, w.B, nil)
	for i, f := range frames {
		k.addFrame(fmt.Sprintf("passive-AB-frame%d", i+1), f)
	}
	if p := helloPub(frames[0]); p != nil {
		k.ephems = append(k.ephems, ephem{name: "recorded-a", pub: *p})
	}
	if len(frames) > 1 {
		if p := helloPub(frames[1]); p != nil {
			k.ephems = append(k.ephems, ephem{name: "recorded-b", pub: *p})
		}
	}
}

// harvestAsResponder: honest `victim` requests M (M is a legitimate contact of the victim); M answers with ephemeral e.
func (w *world) harvestAsResponder(k *knowledge, victim *party, e ephem) {
	var shared *[32]byte
	var vEph *[32]byte
	err, written, _ := runRequester(victim, w.M.sk.GetPublic(), func(slot int, wr [][]byte) ([]byte, error) {
		switch slot {
		case 1:
			vEph = helloPub(wr[0])
			shared, _ = sharedWith(e, vEph)
			return frameHello(e.pub[:]), nil
		case 2:
			// M opens the authenticate box: key = H(a.b | a.M)
			aM := x25519(w.Mmont, vEph)
			key := cryptoutil.ConcatAndHashSha256(shared[:], aM[:])
			if pt := openBox(wr[1], key, &nonceRequesterAuthenticate); pt != nil {
				req := &RequesterAuthenticatePayload{}
				if proto.Unmarshal(pt, req) == nil {
					k.sigs = append(k.sigs, knownSig{signer: victim.name, pub: req.RequesterAccountId, value: append([]byte{}, shared[:]...), sig: req.RequesterAccountSig})
				}
			}
			// M answers properly (it is who the victim wanted to reach)
			sig, _ := w.M.sk.Sign(shared[:])
			resp, _ := proto.Marshal(&ResponderAcceptPayload{ResponderAccountSig: sig})
			vm, _ := cryptoutil.EdwardsToMontgomeryPub(victim.sk.GetPublic())
			MA := x25519(w.Mmont, vm)
			k4 := cryptoutil.ConcatAndHashSha256(shared[:], MA[:])
			return frameBox(box.SealAfterPrecomputation(nil, resp, &nonceResponderAccept, k4)), nil
		}
		return nil, io.EOF
	})
	_ = err
	for i, f := range written {
		k.addFrame(fmt.Sprintf("%s-requests-M(%s)-frame%d", victim.name, e.name, i+1), f)
	}
	if vEph != nil {
		k.ephems = append(k.ephems, ephem{name: "recorded-" + victim.name + "-req", pub: *vEph})
	}
}

// harvestAsRequester: M requests honest `victim` under its own identity with ephemeral e.
func (w *world) harvestAsRequester(k *knowledge, victim *party, e ephem) {
	var shared *[32]byte
	var vEph *[32]byte
	vm, _ := cryptoutil.EdwardsToMontgomeryPub(victim.sk.GetPublic())
	_, _, written, _ := runResponder(victim, func(slot int, wr [][]byte) ([]byte, error) {
		switch slot {
		case 1:
			return frameHello(e.pub[:]), nil
		case 2:
			vEph = helloPub(wr[0])
			shared, _ = sharedWith(e, vEph)
			var aB *[32]byte
			if e.priv != nil {
				aB = x25519(e.priv, vm)
			} else {
				aB, _ = sharedWith(e, vm)
			}
			key := cryptoutil.ConcatAndHashSha256(shared[:], aB[:])
			sig, _ := w.M.sk.Sign(shared[:])
			req, _ := proto.Marshal(&RequesterAuthenticatePayload{RequesterAccountId: w.M.pub, RequesterAccountSig: sig})
			return frameBox(box.SealAfterPrecomputation(nil, req, &nonceRequesterAuthenticate, key)), nil
		case 3:
			// open the accept: key = H(a.b | M.victim)
			MV := x25519(w.Mmont, vm)
			k4 := cryptoutil.ConcatAndHashSha256(shared[:], MV[:])
			if len(wr) >= 2 {
				if pt := openBox(wr[1], k4, &nonceResponderAccept); pt != nil {
					resp := &ResponderAcceptPayload{}
					if proto.Unmarshal(pt, resp) == nil {
						k.sigs = append(k.sigs, knownSig{signer: victim.name, pub: victim.pub, value: append([]byte{}, shared[:]...), sig: resp.ResponderAccountSig})
					}
				}
			}
			return frameAck(true), nil
		}
		return nil, io.EOF
	})
	for i, f := range written {
		k.addFrame(fmt.Sprintf("M(%s)-requests-%s-frame%d", e.name, victim.name, i+1), f)
	}
	if vEph != nil {
		k.ephems = append(k.ephems, ephem{name: "recorded-" + victim.name + "-resp", pub: *vEph})
	}
}

// honestRun runs real requester A against real responder B; mutate (optional) may alter frame i (1..5) in flight.
// It returns the frames as sent.
func honestRun(a, b *party, mutate func(i int, f []byte) []byte) [][]byte {
	frames, _, _, _, _ := honestRunFull(a, b, b.sk.GetPublic(), mutate)
	return frames
}

func honestRunFull(a, b *party, target p2pcrypto.PubKey, mutate func(i int, f []byte) []byte) (frames [][]byte, reqErr error, respKey p2pcrypto.PubKey, respErr error, panicked interface{}) {
	toB := make(chan []byte, 8)
	toA := make(chan []byte, 8)
	idx := 0
	record := func(f []byte) []byte {
		idx++
		frames = append(frames, f)
		if mutate != nil {
			return mutate(idx, f)
		}
		return f
	}
	type resB struct {
		k   p2pcrypto.PubKey
		err error
		p   interface{}
	}
	doneB := make(chan resB, 1)
	lock := make(chan struct{}, 1) // frames is only touched by the party holding the turn (strict alternation)
	_ = lock
	go func() {
		var r resB
		defer func() {
			if x := recover(); x != nil {
				r.p = x
			}
			close(toA)
			doneB <- r
		}()
		sio := &chanIO{in: toB, out: toA, rec: record}
		r.k, r.err = ResponseUsingReaderWriter(context.Background(), zap.NewNop(), sio, sio, b.sk)
	}()
	func() {
		defer func() {
			if x := recover(); x != nil {
				panicked = x
			}
			close(toB)
		}()
		sio := &chanIO{in: toA, out: toB, rec: record}
		reqErr = RequestUsingReaderWriter(context.Background(), zap.NewNop(), sio, sio, a.sk, target)
	}()
	r := <-doneB
	if r.p != nil {
		panicked = r.p
	}
	return frames, reqErr, r.k, r.err, panicked
}

type chanIO struct {
	in  chan []byte
	out chan []byte
	rec func([]byte) []byte
}

func (c *chanIO) WriteMsg(m proto.Message) error {
	b, err := proto.Marshal(m)
	if err != nil {
		return err
	}
	c.out <- c.rec(b)
	return nil
}

func (c *chanIO) ReadMsg(m proto.Message) error {
	b, ok := <-c.in
	if !ok {
		return io.EOF
	}
	if b == nil {
		return errors.New("frame dropped")
	}
	if len(b) > 2048 {
		return io.ErrShortBuffer
	}
	return proto.Unmarshal(b, m)
}

type c06Case struct {
	Target   string   `json:"target"`
	Harvests []string `json:"harvest_sessions"`
	Ephem    string   `json:"ephemeral"`
	Box      string   `json:"box_frame"`
	Ack      string   `json:"ack"`
}

// candidate box frames for a slot given knowledge and the step key (nil when not computable)
type cand struct {
	name  string
	frame []byte
	mk    func() []byte // lazily built frame (signing with foreign key types is slow)
}

func (c cand) bytes() []byte {
	if c.mk != nil {
		return c.mk()
	}
	return c.frame
}

func (w *world) boxCandidates(k *knowledge, key *[32]byte, nonce *[24]byte, step int, shared *[32]byte) []cand {
	var out []cand
	for i, f := range k.frames {
		out = append(out, cand{name: "replay:" + k.names[i], frame: f})
	}
	if key != nil {
		// every plaintext the attacker can build from what it knows, sealed under the key of this step
		var pts []cand
		for i, s := range k.sigs {
			req, _ := proto.Marshal(&RequesterAuthenticatePayload{RequesterAccountId: s.pub, RequesterAccountSig: s.sig})
			pts = append(pts, cand{name: fmt.Sprintf("auth{%s,sig#%d by %s}", s.signer, i, s.signer), frame: req})
			acc, _ := proto.Marshal(&ResponderAcceptPayload{ResponderAccountSig: s.sig})
			pts = append(pts, cand{name: fmt.Sprintf("accept{sig#%d by %s}", i, s.signer), frame: acc})
			// a victim's identity with a signature of another signer
			for _, other := range []*party{w.A, w.B} {
				if other.name != s.signer {
					req2, _ := proto.Marshal(&RequesterAuthenticatePayload{RequesterAccountId: other.pub, RequesterAccountSig: s.sig})
					pts = append(pts, cand{name: fmt.Sprintf("auth{%s,sig#%d by %s}", other.name, i, s.signer), frame: req2})
				}
			}
		}
		if shared != nil {
			// M's own signature over this session's value under a victim's identity, and M's honest payloads
			msig, _ := w.M.sk.Sign(shared[:])
			for _, id := range []*party{w.A, w.B, w.M} {
				req, _ := proto.Marshal(&RequesterAuthenticatePayload{RequesterAccountId: id.pub, RequesterAccountSig: msig})
				pts = append(pts, cand{name: "auth{" + id.name + ",sig by M over this session}", frame: req})
			}
			acc, _ := proto.Marshal(&ResponderAcceptPayload{ResponderAccountSig: msig})
			pts = append(pts, cand{name: "accept{sig by M over this session}", frame: acc})
			// foreign key types as identity
			for _, kt := range foreignKeys() {
				kt := kt
				pts = append(pts, cand{name: "auth{foreign " + kt.name + " key, own sig}", mk: func() []byte {
					fsig, _ := kt.sk.Sign(shared[:])
					pub, _ := p2pcrypto.MarshalPublicKey(kt.sk.GetPublic())
					req, _ := proto.Marshal(&RequesterAuthenticatePayload{RequesterAccountId: pub, RequesterAccountSig: fsig})
					return req
				}})
			}
			// no signature / zero signature under a victim's identity
			for _, id := range []*party{w.A, w.B} {
				req, _ := proto.Marshal(&RequesterAuthenticatePayload{RequesterAccountId: id.pub})
				pts = append(pts, cand{name: "auth{" + id.name + ",no sig}", frame: req})
				req, _ = proto.Marshal(&RequesterAuthenticatePayload{RequesterAccountId: id.pub, RequesterAccountSig: make([]byte, 64)})
				pts = append(pts, cand{name: "auth{" + id.name + ",zero sig}", frame: req})
			}
			accE, _ := proto.Marshal(&ResponderAcceptPayload{})
			pts = append(pts, cand{name: "accept{no sig}", frame: accE})
		}
		for _, p := range pts {
			p := p
			out = append(out, cand{name: "seal(" + p.name + ")", mk: func() []byte { return frameBox(box.SealAfterPrecomputation(nil, p.bytes(), nonce, key)) }})
		}
	}
	out = append(out, cand{name: "empty", frame: []byte{}}, cand{name: "one-byte", frame: []byte{0x0a}}, cand{name: "oversize-2049", frame: frameBox(make([]byte, 2049))})
	return out
}

type fkey struct {
	name string
	sk   p2pcrypto.PrivKey
}

var foreignKeysCache []fkey

func foreignKeys() []fkey {
	if foreignKeysCache == nil {
		for _, t := range []struct {
			n    string
			typ  int
			bits int
		}{{"RSA", p2pcrypto.RSA, 2048}, {"ECDSA", p2pcrypto.ECDSA, 0}, {"Secp256k1", p2pcrypto.Secp256k1, 0}} {
			sk, _, err := p2pcrypto.GenerateKeyPairWithReader(t.typ, t.bits, crand.Reader)
			if err != nil {
				panic(err)
			}
			foreignKeysCache = append(foreignKeysCache, fkey{t.n, sk})
		}
	}
	return foreignKeysCache
}

func pubName(w *world, k p2pcrypto.PubKey) string {
	if k == nil {
		return "nil"
	}
	for _, p := range []*party{w.A, w.B, w.M} {
		if k.Equals(p.sk.GetPublic()) {
			return p.name
		}
	}
	return "other-key(" + k.Type().String() + ")"
}

// targetT1: M connects to responder B and tries to make B report a key M does not own.
func (w *world) targetT1(rep *vrep.Report, k *knowledge, harvests []string, k2 *knowledge) {
	bm := w.B.mont
	ephs := append([]ephem{w.freshEphem("fresh")}, lowOrderPoints()...)
	ephs = append(ephs, k.ephems...)
	for _, e := range ephs {
		// first pass to learn how many candidates (they depend on B's fresh ephemeral, so build inside the run)
		nCand := -1
		for ci := 0; nCand < 0 || ci < nCand; ci++ {
			acks := []string{"true"}
			for ai := 0; ai < len(acks); ai++ {
				ack := acks[ai]
				reachedAck := false
				var chosen cand
				res, err, written, pan := runResponder(w.B, func(slot int, wr [][]byte) ([]byte, error) {
					switch slot {
					case 1:
						return frameHello(e.pub[:]), nil
					case 2:
						bEph := helloPub(wr[0])
						shared, ok := sharedWith(e, bEph)
						var key *[32]byte
						if ok {
							var aB *[32]byte
							if e.priv != nil {
								aB = x25519(e.priv, bm)
							} else {
								aB, _ = sharedWith(e, bm)
							}
							key = cryptoutil.ConcatAndHashSha256(shared[:], aB[:])
						}
						cands := w.boxCandidates(k, key, &nonceRequesterAuthenticate, 3, shared)
						nCand = len(cands)
						chosen = cands[ci]
						return chosen.bytes(), nil
					case 3:
						reachedAck = true
						switch ack {
						case "true":
							return frameAck(true), nil
						case "false":
							return frameAck(false), nil
						}
						return nil, io.EOF
					}
					return nil, io.EOF
				})
				rep.AddTransitions(1)
				c := c06Case{Target: "T1 M->B", Harvests: harvests, Ephem: e.name, Box: chosen.name, Ack: ack}
				who := pubName(w, res)
				en := e.name
				if e.low {
					en = "low-order"
				}
				rep.Eval(fmt.Sprintf("T1/ephemeral=%s/box=%s/ack=%s/reported=%s/err=%v", en, candClass(chosen.name), ack, who, err != nil))
				if pan != nil {
					rep.Violation("C06/panic", fmt.Sprintf("responder panicked: %v (%+v)", pan, c), c)
				}
				if err == nil && res != nil && who != "M" {
					rep.Violation("C06/responder-reports-absent-account", fmt.Sprintf("responder B reports account %s although only M takes part in this session: ephemeral %s, authenticate frame %s, ack %s; harvest sessions %v", who, e.name, chosen.name, ack, harvests), c)
				}
				if err == nil && res == nil {
					rep.Violation("C06/responder-success-without-key", fmt.Sprintf("%+v", c), c)
				}
				if err == nil && ack != "true" {
					rep.Violation("C06/responder-success-without-acknowledge", fmt.Sprintf("%+v", c), c)
				}
				// what B wrote may feed the requester attack (accept frames)
				if k2 != nil {
					for i, f := range written {
						k2.addFrame(fmt.Sprintf("T1(%s,%s)-B-frame%d", e.name, chosen.name, i+1), f)
					}
				}
				if nCand < 0 {
					nCand = 0
				}
				if reachedAck && ack == "true" {
					acks = append(acks, "false", "missing") // the authenticate frame was accepted: every answer in the last slot
				}
			}
		}
	}
}

func candClass(n string) string {
	if len(n) > 7 && n[:7] == "replay:" {
		return "replay"
	}
	if len(n) > 5 && n[:5] == "seal(" {
		i := bytes.IndexByte([]byte(n), '{')
		if i > 0 {
			return "seal-" + n[5:i]
		}
		return "seal"
	}
	return n
}

// targetT2: A requests B (its intended contact); the peer is M. A must never succeed.
func (w *world) targetT2(rep *vrep.Report, k *knowledge, harvests []string) {
	ephs := append([]ephem{w.freshEphem("fresh")}, lowOrderPoints()...)
	ephs = append(ephs, k.ephems...)
	ephs = append(ephs, ephem{name: "reflect"})
	am := w.A.mont
	for _, e := range ephs {
		nCand := -1
		for ci := 0; nCand < 0 || ci < nCand; ci++ {
			var chosen cand
			err, _, pan := runRequester(w.A, w.B.sk.GetPublic(), func(slot int, wr [][]byte) ([]byte, error) {
				switch slot {
				case 1:
					if e.name == "reflect" {
						return wr[0], nil
					}
					return frameHello(e.pub[:]), nil
				case 2:
					aEph := helloPub(wr[0])
					var shared *[32]byte
					var key *[32]byte
					if e.name != "reflect" {
						var ok bool
						shared, ok = sharedWith(e, aEph)
						_ = ok
					}
					_ = am
					// the accept key needs A.B, which M cannot compute; it can still replay, or seal under keys it
					// can compute (its own agreement with A, as if it were the intended contact)
					if shared != nil {
						MA := x25519(w.Mmont, am)
						key = cryptoutil.ConcatAndHashSha256(shared[:], MA[:])
					}
					cands := w.boxCandidates(k, key, &nonceResponderAccept, 4, shared)
					// the authenticate frame A just sent, reflected
					cands = append(cands, cand{name: "reflect-authenticate", frame: wr[1]})
					nCand = len(cands)
					chosen = cands[ci]
					return chosen.bytes(), nil
				}
				return nil, io.EOF
			})
			rep.AddTransitions(1)
			c := c06Case{Target: "T2 A->(B) peer M", Harvests: harvests, Ephem: e.name, Box: chosen.name}
			en := e.name
			if e.low {
				en = "low-order"
			}
			rep.Eval(fmt.Sprintf("T2/ephemeral=%s/box=%s/success=%v", en, candClass(chosen.name), err == nil))
			if pan != nil {
				rep.Violation("C06/panic", fmt.Sprintf("requester panicked: %v (%+v)", pan, c), c)
			}
			if err == nil {
				rep.Violation("C06/requester-succeeds-without-intended-peer", fmt.Sprintf("requester A, targeting B, completes the handshake with a peer that does not hold B's key: ephemeral %s, accept frame %s; harvest sessions %v", e.name, chosen.name, harvests), c)
			}
			if nCand < 0 {
				nCand = 0
			}
		}
	}
}

func TestVerifC06(t *testing.T) {
	rep := vrep.New("C06")
	defer func() {
		if err := rep.Finish(); err != nil {
			t.Fatal(err)
		}
		if rep.NViolations() > 0 {
			t.Fail()
		}
	}()
	seed := vrep.Seed()
	w := &world{A: newParty(seed, "A"), B: newParty(seed, "B"), M: newParty(seed, "M")}
	var err error
	w.Mmont, err = cryptoutil.EdwardsToMontgomeryPriv(w.M.sk)
	if err != nil {
		t.Fatal(err)
	}
	// the alphabet is what it claims: every listed point yields the all-zero shared value
	nLow := 0
	for _, e := range lowOrderPoints() {
		var sc [32]byte
		crand.Read(sc[:])
		if _, err := curve25519.X25519(sc[:], e.pub[:]); (err != nil) != e.low {
			rep.Violation("HARNESS/low-order-alphabet", "classification of "+e.name+" depends on the scalar", nil)
		}
		if e.low {
			nLow++
		}
	}
	rep.Set("low_order_points_in_alphabet", int64(nLow))

	// ---- honest runs: both sides complete, the responder learns exactly the requester's key
	for _, pair := range [][2]*party{{w.A, w.B}, {w.B, w.A}, {w.M, w.A}, {w.A, w.M}} {
		_, reqErr, k, respErr, pan := honestRunFull(pair[0], pair[1], pair[1].sk.GetPublic(), nil)
		ok := reqErr == nil && respErr == nil && pan == nil && k != nil && k.Equals(pair[0].sk.GetPublic())
		rep.Eval(fmt.Sprintf("honest/ok=%v", ok))
		if !ok {
			rep.Violation("C06/honest-handshake-fails", fmt.Sprintf("%s -> %s: req=%v resp=%v key=%s", pair[0].name, pair[1].name, reqErr, respErr, pubName(w, k)), nil)
		}
	}
	// two sessions at the same time in one process: while session 1 is under way (after frame k of it has been
	// written), a second honest session between other parties runs from start to end; both complete, each responder
	// learns its own requester (nothing is shared between sessions)
	for k := 1; k <= 4; k++ {
		var inner struct {
			reqErr, respErr error
			key             p2pcrypto.PubKey
			ran             bool
		}
		_, reqErr, key, respErr, pan := honestRunFull(w.A, w.B, w.B.sk.GetPublic(), func(i int, f []byte) []byte {
			if i == k && !inner.ran {
				inner.ran = true
				_, inner.reqErr, inner.key, inner.respErr, _ = honestRunFull(w.M, w.B, w.B.sk.GetPublic(), nil)
			}
			return f
		})
		ok1 := reqErr == nil && respErr == nil && pan == nil && key != nil && key.Equals(w.A.sk.GetPublic())
		ok2 := inner.ran && inner.reqErr == nil && inner.respErr == nil && inner.key != nil && inner.key.Equals(w.M.sk.GetPublic())
		rep.Eval(fmt.Sprintf("honest-interleaved/after-frame-%d/outer-ok=%v/inner-ok=%v", k, ok1, ok2))
		rep.AddTransitions(1)
		if !ok1 || !ok2 {
			rep.Violation("C06/honest-handshakes-interfere", fmt.Sprintf("session A->B is interrupted after its frame %d by a complete session M->B in the same process: outer req=%v resp=%v key=%s; inner req=%v resp=%v key=%s", k, reqErr, respErr, pubName(w, key), inner.reqErr, inner.respErr, pubName(w, inner.key)), map[string]interface{}{"after_frame": k})
		}
	}
	// the same honest run over the real framing (length-delimited reader/writer as the contact-request manager sets
	// them up) on a byte stream that hands over at most n bytes per read
	for _, chunk := range []int{0, 1, 2, 7, 64} {
		reqErr, k, respErr := framedHonestRun(w.A, w.B, chunk)
		ok := reqErr == nil && respErr == nil && k != nil && k.Equals(w.A.sk.GetPublic())
		rep.Eval(fmt.Sprintf("honest-framed/chunk=%d/ok=%v", chunk, ok))
		rep.AddTransitions(1)
		if !ok {
			rep.Violation("C06/honest-handshake-fails-on-segmented-stream", fmt.Sprintf("A -> B over a stream that delivers at most %d bytes per read (0 = whole writes): req=%v resp=%v key=%s", chunk, reqErr, respErr, pubName(w, k)), map[string]interface{}{"chunk": chunk})
		}
	}
	// wrong target key: the requester must fail, the responder must not succeed either
	{
		_, reqErr, k, respErr, _ := honestRunFull(w.A, w.B, w.M.sk.GetPublic(), nil)
		rep.Eval(fmt.Sprintf("wrong-target/req-fails=%v/resp-fails=%v", reqErr != nil, respErr != nil))
		if reqErr == nil {
			rep.Violation("C06/wrong-target-accepted", "requester targeting M completed with B", nil)
		}
		if respErr == nil && k != nil {
			rep.Violation("C06/responder-completes-with-misdirected-request", "B completed a handshake whose requester targeted another account", nil)
		}
	}

	// ---- misdirected request relayed live: A requests X, a relay without any account key hands A's frames to another
	// honest responder R and answers the last slot itself (the acknowledge is not authenticated). R must not
	// complete: A never addressed it.
	for _, tc := range []struct{ target, responder *party }{{w.B, w.M}, {w.M, w.B}, {w.B, w.A}} {
		for _, ack := range []string{"true", "false", "missing", "forward"} {
			k, respErr, pan := relayRun(w.A, tc.target, tc.responder, ack)
			rep.Eval(fmt.Sprintf("relay/ack=%s/responder-completes=%v", ack, respErr == nil))
			if pan != nil {
				rep.Violation("C06/panic", fmt.Sprintf("relay run: %v", pan), nil)
			}
			if respErr == nil && k != nil {
				rep.Violation("C06/responder-completes-with-misdirected-request", fmt.Sprintf("A requests %s; a relay hands its frames to responder %s and acknowledges (%s) itself: %s completes and reports %s", tc.target.name, tc.responder.name, ack, tc.responder.name, pubName(w, k)), map[string]string{"target": tc.target.name, "responder": tc.responder.name, "ack": ack})
			}
		}
	}

	// ---- man in the middle: every single-bit flip and every truncation of each of the five frames
	base := honestRun(w.A, w.B, nil)
	var flips int64
	for fi := 1; fi <= len(base); fi++ {
		n := len(base[fi-1])
		var muts []func([]byte) []byte
		for bit := 0; bit < n*8; bit++ {
			bit := bit
			muts = append(muts, func(f []byte) []byte {
				m := append([]byte{}, f...)
				if bit/8 < len(m) {
					m[bit/8] ^= 1 << uint(bit%8)
				}
				return m
			})
		}
		for cut := 0; cut < n; cut++ {
			cut := cut
			muts = append(muts, func(f []byte) []byte {
				if cut < len(f) {
					return append([]byte{}, f[:cut]...)
				}
				return f
			})
		}
		muts = append(muts, func(f []byte) []byte { return append(append([]byte{}, f...), make([]byte, 2049)...) })
		for mi, mut := range muts {
			_, reqErr, k, respErr, pan := honestRunFull(w.A, w.B, w.B.sk.GetPublic(), func(i int, f []byte) []byte {
				if i == fi {
					return mut(f)
				}
				return f
			})
			flips++
			who := pubName(w, k)
			rep.Eval(fmt.Sprintf("mitm/frame%d/req-ok=%v/resp-ok=%v/reported=%s", fi, reqErr == nil, respErr == nil, who))
			if pan != nil {
				rep.Violation("C06/panic", fmt.Sprintf("frame %d mutation %d: %v", fi, mi, pan), map[string]int{"frame": fi, "mutation": mi})
			}
			if respErr == nil && who != "A" {
				rep.Violation("C06/mitm-changes-identity", fmt.Sprintf("frame %d mutation %d: responder reports %s", fi, mi, who), map[string]int{"frame": fi, "mutation": mi})
			}
		}
	}
	rep.Sample(map[string]interface{}{"kind": "man-in-the-middle", "frames": len(base), "mutations": flips})
	// re-ordering: frame k+1 delivered in place of frame k (both directions share one numbering)
	for fi := 1; fi <= 4; fi++ {
		var held []byte
		_, reqErr, k, respErr, pan := honestRunFull(w.A, w.B, w.B.sk.GetPublic(), func(i int, f []byte) []byte {
			if i == fi {
				held = f
				return base[(fi+1)%len(base)]
			}
			_ = held
			return f
		})
		rep.Eval(fmt.Sprintf("reorder/frame%d/req-ok=%v/resp-ok=%v", fi, reqErr == nil, respErr == nil))
		if pan != nil || (respErr == nil && pubName(w, k) != "A") {
			rep.Violation("C06/reorder", fmt.Sprintf("frame %d replaced: panic=%v reported=%s", fi, pan, pubName(w, k)), fi)
		}
	}

	// ---- bounded Dolev-Yao attacker: harvest sessions (every combination of at most 1 / 2), then the targets
	type harvest struct {
		name string
		run  func(k *knowledge)
	}
	lo := lowOrderPoints()
	var hs []harvest
	hs = append(hs, harvest{"passive(A->B)", func(k *knowledge) { w.harvestPassive(k) }})
	ephKinds := []ephem{{name: "fresh"}, lo[0], lo[2], lo[4]}
	if vrep.Thorough() {
		ephKinds = append([]ephem{{name: "fresh"}}, lo...)
	}
	for _, e := range ephKinds {
		e := e
		mk := func() ephem {
			if e.name == "fresh" {
				return w.freshEphem("fresh-h")
			}
			return e
		}
		hs = append(hs,
			harvest{"A-requests-M(" + e.name + ")", func(k *knowledge) { w.harvestAsResponder(k, w.A, mk()) }},
			harvest{"B-requests-M(" + e.name + ")", func(k *knowledge) { w.harvestAsResponder(k, w.B, mk()) }},
			harvest{"M(" + e.name + ")-requests-B", func(k *knowledge) { w.harvestAsRequester(k, w.B, mk()) }},
			harvest{"M(" + e.name + ")-requests-A", func(k *knowledge) { w.harvestAsRequester(k, w.A, mk()) }},
		)
	}
	var combos [][]int
	combos = append(combos, nil)
	for i := range hs {
		combos = append(combos, []int{i})
	}
	if vrep.Thorough() {
		for i := range hs {
			for j := range hs {
				if i != j {
					combos = append(combos, []int{i, j})
				}
			}
		}
	} else {
		// quick: pairs restricted to one harvest of each side's signature with the same kind of ephemeral
		for i := range hs {
			for j := i + 1; j < len(hs); j++ {
				if (i-1)/4 == (j-1)/4 && i > 0 {
					combos = append(combos, []int{i, j})
				}
			}
		}
	}
	sort.SliceStable(combos, func(a, b int) bool { return len(combos[a]) < len(combos[b]) })
	foreignKeys()
	var wg sync.WaitGroup
	sem := make(chan struct{}, 16)
	for ci, combo := range combos {
		ci, combo := ci, combo
		wg.Add(1)
		sem <- struct{}{}
		go func() {
			defer func() { <-sem; wg.Done() }()
			k := &knowledge{}
			var names []string
			for _, hi := range combo {
				hs[hi].run(k)
				names = append(names, hs[hi].name)
			}
			k2 := k.clone()
			w.targetT1(rep, k, names, k2)
			// T2 after T1: the frames B produced while being attacked are part of the attacker's knowledge
			w.targetT2(rep, k2, append(append([]string{}, names...), "T1-attempts"))
			if ci < 3 || ci == len(combos)-1 {
				rep.Sample(map[string]interface{}{"harvest_sessions": names, "known_signatures": len(k.sigs), "recorded_frames": len(k.frames), "frames_after_T1": len(k2.frames)})
			}
			rep.AddStates(1)
		}()
	}
	wg.Wait()
	rep.Set("harvest_combinations", int64(len(combos)))
}

// relayRun: honest requester a (targeting `target`) and honest responder r are connected through a relay that
// forwards hello, hello, authenticate, and then handles the accept/acknowledge slots itself:
// ack "forward" = plain forwarding (a decides), otherwise the relay drops r's accept and sends the acknowledge.
func relayRun(a, target, r *party, ack string) (p2pcrypto.PubKey, error, interface{}) {
	toR := make(chan []byte, 8)
	toA := make(chan []byte, 8)
	var closeToR sync.Once
	endToR := func() { closeToR.Do(func() { close(toR) }) }
	var panicked interface{}
	type resR struct {
		k   p2pcrypto.PubKey
		err error
		p   interface{}
	}
	doneR := make(chan resR, 1)
	nFromR := 0
	go func() {
		var res resR
		defer func() {
			if x := recover(); x != nil {
				res.p = x
			}
			doneR <- res
		}()
		sio := &chanIO{in: toR, out: make(chan []byte, 8), rec: func(f []byte) []byte { return f }}
		// frames written by r go through the relay
		out := sio.out
		go func() {
			for f := range out {
				nFromR++
				if nFromR == 2 && ack != "forward" {
					// r's accept: dropped; the relay acknowledges in a's place
					switch ack {
					case "true":
						toR <- frameAck(true)
					case "false":
						toR <- frameAck(false)
					case "missing":
						endToR()
					}
					continue
				}
				toA <- f
			}
		}()
		res.k, res.err = ResponseUsingReaderWriter(context.Background(), zap.NewNop(), sio, sio, r.sk)
		close(out)
	}()
	doneA := make(chan struct{})
	go func() {
		defer close(doneA)
		defer func() {
			if x := recover(); x != nil {
				panicked = x
			}
		}()
		sio := &chanIO{in: toA, out: toR, rec: func(f []byte) []byte { return f }}
		_ = RequestUsingReaderWriter(context.Background(), zap.NewNop(), sio, sio, a.sk, target.sk.GetPublic())
		// the requester is gone: the responder sees the end of the stream
		if ack == "forward" {
			endToR()
		}
	}()
	res := <-doneR
	// a may still wait for an accept that never comes: release it
	func() {
		defer func() { _ = recover() }()
		close(toA)
	}()
	<-doneA
	if res.p != nil {
		panicked = res.p
	}
	return res.k, res.err, panicked
}

// chunkedReader hands over at most n bytes per Read (n = 0: whatever the pipe delivers).
type chunkedReader struct {
	r io.Reader
	n int
}

func (c *chunkedReader) Read(p []byte) (int, error) {
	if c.n > 0 && len(p) > c.n {
		p = p[:c.n]
	}
	return c.r.Read(p)
}

func framedHonestRun(a, b *party, chunk int) (reqErr error, respKey p2pcrypto.PubKey, respErr error) {
	aIn, bOut := io.Pipe()
	bIn, aOut := io.Pipe()
	ctx, cancel := context.WithTimeout(context.Background(), 60*time.Second)
	defer cancel()
	type resB struct {
		k   p2pcrypto.PubKey
		err error
	}
	doneB := make(chan resB, 1)
	go func() {
		var r resB
		defer func() {
			if x := recover(); x != nil {
				r.err = fmt.Errorf("PANIC %v", x)
			}
			_ = bOut.Close()
			doneB <- r
		}()
		r.k, r.err = ResponseUsingReaderWriter(ctx, zap.NewNop(), protoio.NewDelimitedReader(&chunkedReader{bIn, chunk}, 2048), protoio.NewDelimitedWriter(bOut), b.sk)
	}()
	doneA := make(chan error, 1)
	go func() {
		var err error
		defer func() {
			if x := recover(); x != nil {
				err = fmt.Errorf("PANIC %v", x)
			}
			_ = aOut.Close()
			doneA <- err
		}()
		err = RequestUsingReaderWriter(ctx, zap.NewNop(), protoio.NewDelimitedReader(&chunkedReader{aIn, chunk}, 2048), protoio.NewDelimitedWriter(aOut), a.sk, b.sk.GetPublic())
	}()
	// a desynchronised stream leaves both sides waiting for bytes: end them when the context expires
	go func() {
		<-ctx.Done()
		_ = aIn.CloseWithError(ctx.Err())
		_ = bIn.CloseWithError(ctx.Err())
	}()
	reqErr = <-doneA
	r := <-doneB
	return reqErr, r.k, r.err
}
