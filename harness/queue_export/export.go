//go:build verif

package queue

// VerifLen exposes the number of queued items to verification harnesses of other packages.
func (q *SimpleQueue[T]) VerifLen() int {
	q.mu.Lock()
	defer q.mu.Unlock()
	return q.list.Len()
}
