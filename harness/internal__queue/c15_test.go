//go:build verif

package queue

import (
	"context"
	"fmt"
	"os"
	"sort"
	"strings"
	"testing"
	"time"

	"berty.tech/weshnet/v2/internal/zzverif/vrep"
	"berty.tech/weshnet/v2/internal/zzverif/vsync"
)

type item struct {
	id      int
	counter uint64
}

func (i *item) Counter() uint64 { return i.counter }

// orderTracer records the order in which items entered the queue (ItemQueued is called by Add under the queue lock).
type orderTracer struct{ order *[]int }

func (o orderTracer) ItemQueued(name string, it *item) { *o.order = append(*o.order, it.id) }
func (o orderTracer) ItemPop(name string, it *item)    {}

type c15Scenario struct {
	Name   string  `json:"name"`
	P      [][]int `json:"producers"` // items added by each producer thread, in order
	Cancel bool    `json:"cancel"`
	Pop    bool    `json:"pop_caller"`
}

type c15World struct {
	q           *SimpleQueue[*item]
	order       []int
	got         []int
	popGot      []int
	cDone       bool
	cFalse      bool
	total       int
	cancelled   bool
	afterCancel []int // items handed out by a wait that started on an already cancelled context
}

func c15Setup(sc c15Scenario) func(s *vsync.Sched) vsync.World {
	return func(s *vsync.Sched) vsync.World {
		w := &c15World{}
		w.q = NewSimpleQueue[*item]("q", orderTracer{&w.order})
		ctx, cancel := context.WithCancel(context.Background())
		for _, items := range sc.P {
			w.total += len(items)
		}
		for pi, items := range sc.P {
			items := items
			vsync.GoNamed(fmt.Sprintf("P%d", pi+1), func() {
				for _, id := range items {
					w.q.Add(&item{id: id})
				}
			})
		}
		c := vsync.GoNamed("C", func() {
			for len(w.got) < w.total {
				pre := ctx.Err() != nil // cancelled before this wait starts (no scheduling point between this read and the call)
				it, ok := w.q.WaitForItem(ctx)
				if pre && ok {
					w.afterCancel = append(w.afterCancel, it.id)
				}
				if !ok {
					w.cFalse = true
					break
				}
				w.got = append(w.got, it.id)
			}
			w.cDone = true
		})
		if sc.Pop {
			c.SetDaemon() // the Pop caller may take items away, then C legitimately keeps waiting
			vsync.GoNamed("POP", func() {
				if it, ok := w.q.Pop(); ok {
					w.popGot = append(w.popGot, it.id)
				}
			})
		}
		if sc.Cancel {
			vsync.GoNamed("X", func() {
				vsync.PointHere("cancel")
				w.cancelled = true
				cancel()
			})
		}
		_ = cancel
		return w
	}
}

func c15Check(sc c15Scenario) func(x *vsync.Execution, wd vsync.World) (string, *vsync.Verdict) {
	return func(x *vsync.Execution, wd vsync.World) (string, *vsync.Verdict) {
		w := wd.(*c15World)
		outcome := fmt.Sprintf("got=%v pop=%v false=%v done=%v blocked=%d", w.got, w.popGot, w.cFalse, w.cDone, len(x.BlockedAll))
		if len(x.Panics) > 0 {
			return outcome, &vsync.Verdict{Sig: "C15/panic", Desc: strings.Join(x.Panics, "\n")}
		}
		if x.Horizon {
			return outcome, &vsync.Verdict{Sig: "C15/horizon", Desc: "step horizon exceeded (livelock?)"}
		}
		remaining := w.q.list.Len()
		// exactly once + FIFO: consumer output and popped items, merged, are a permutation of the insertion order;
		// the consumer's own output is a subsequence of the insertion order
		seen := map[int]int{}
		for _, id := range w.got {
			seen[id]++
		}
		for _, id := range w.popGot {
			seen[id]++
		}
		for id, n := range seen {
			if n > 1 {
				return outcome, &vsync.Verdict{Sig: "C15/duplicate", Desc: fmt.Sprintf("item %d handed out %d times", id, n)}
			}
		}
		if len(seen)+remaining != len(w.order) {
			return outcome, &vsync.Verdict{Sig: "C15/lost-item", Desc: fmt.Sprintf("inserted %v, handed out %v + %v, %d left in the list", w.order, w.got, w.popGot, remaining)}
		}
		pos := map[int]int{}
		for i, id := range w.order {
			pos[id] = i
		}
		if !sort.SliceIsSorted(w.got, func(a, b int) bool { return pos[w.got[a]] < pos[w.got[b]] }) {
			return outcome, &vsync.Verdict{Sig: "C15/not-fifo", Desc: fmt.Sprintf("inserted in order %v, consumer received %v", w.order, w.got)}
		}
		// no lost wake-up: the consumer is never left blocked while the queue is non-empty
		if !w.cDone {
			if remaining > 0 {
				return outcome, &vsync.Verdict{Sig: "C15/lost-wakeup", Desc: fmt.Sprintf("all other threads finished, the consumer is blocked (%v) and the queue holds %d item(s); consumer received %v", x.BlockedAll, remaining, w.got)}
			}
			if w.cancelled {
				return outcome, &vsync.Verdict{Sig: "C15/cancel-ignored", Desc: fmt.Sprintf("the context was cancelled and the consumer is still blocked: %v", x.BlockedAll)}
			}
			if !sc.Pop {
				return outcome, &vsync.Verdict{Sig: "C15/consumer-stuck", Desc: fmt.Sprintf("consumer blocked with an empty queue although it has not received all items: got %v of %d", w.got, w.total)}
			}
		}
		if x.Deadlock {
			return outcome, &vsync.Verdict{Sig: "C15/deadlock", Desc: strings.Join(x.Blocked, "; ")}
		}
		if len(w.afterCancel) > 0 {
			return outcome, &vsync.Verdict{Sig: "C15/item-after-cancel", Desc: fmt.Sprintf("a wait that started after the context had been cancelled returned item(s) %v instead of 'no item'", w.afterCancel)}
		}
		if w.cFalse && !w.cancelled {
			return outcome, &vsync.Verdict{Sig: "C15/spurious-false", Desc: "WaitForItem returned false without cancellation"}
		}
		return outcome, nil
	}
}

func c15Scenarios(thorough bool) []c15Scenario {
	var out []c15Scenario
	prods := [][][]int{{{1}}, {{1, 2}}, {{1}, {2}}, {{1, 2}, {3}}, {{1, 2, 3}}}
	for _, p := range prods {
		for _, cancel := range []bool{false, true} {
			for _, pop := range []bool{false, true} {
				if pop && cancel && !thorough {
					continue
				}
				name := fmt.Sprintf("producers=%v cancel=%v pop=%v", p, cancel, pop)
				out = append(out, c15Scenario{Name: name, P: p, Cancel: cancel, Pop: pop})
			}
		}
	}
	return out
}

func TestVerifC15(t *testing.T) {
	rep := vrep.New("C15")
	defer func() {
		if err := rep.Finish(); err != nil {
			t.Fatal(err)
		}
		if rep.NViolations() > 0 {
			t.Fail()
		}
	}()
	maxBound, budget := 3, 8*time.Minute
	if vrep.Thorough() {
		maxBound, budget = 6, 25*time.Minute
	}
	var scs []vsync.Scenario
	for _, sc := range c15Scenarios(vrep.Thorough()) {
		scs = append(scs, vsync.Scenario{Name: sc.Name, Setup: c15Setup(sc), Check: c15Check(sc)})
	}
	vsync.ExploreScenarios(rep, "SQ", scs, maxBound, 400, budget)
	if os.Getenv("VERIF_REPLAY") == "" && os.Getenv("VERIF_RACE_PASS") == "" {
		c15Priority(rep)
	}
}

// ---- priority queue: sequential contract by exhaustive operation sequences, plus Add || Next under the scheduler

func c15Priority(rep *vrep.Report) {
	depth := 5
	if vrep.Thorough() {
		depth = 7
	}
	type op struct {
		kind string
		c    uint64
	}
	alphabet := []op{{"add", 1}, {"add", 2}, {"add", 3}, {"next", 0}, {"nextall", 0}, {"size", 0}}
	var seqs int64
	var rec func(hist []op)
	run := func(hist []op) {
		seqs++
		pq := NewPriorityQueue[*item]("p", &noopTracer[*item]{})
		var ref []*item // reference: plain slice, min selected by scan
		nextID := 0
		desc := func() string {
			var sb strings.Builder
			for _, o := range hist {
				fmt.Fprintf(&sb, "%s(%d) ", o.kind, o.c)
			}
			return sb.String()
		}
		takeMin := func() *item {
			if len(ref) == 0 {
				return nil
			}
			mi := 0
			for i, it := range ref {
				if it.counter < ref[mi].counter {
					mi = i
				}
			}
			return ref[mi]
		}
		remove := func(it *item) bool {
			for i, r := range ref {
				if r == it {
					ref = append(ref[:i], ref[i+1:]...)
					return true
				}
			}
			return false
		}
		for _, o := range hist {
			switch o.kind {
			case "add":
				nextID++
				it := &item{id: nextID, counter: o.c}
				pq.Add(it)
				ref = append(ref, it)
			case "next":
				got := pq.Next()
				want := takeMin()
				if (got == nil) != (want == nil) {
					rep.Violation("C15/priority-next-empty-mismatch", desc(), hist)
					return
				}
				if got != nil {
					if got.counter != want.counter {
						rep.Violation("C15/priority-not-smallest", fmt.Sprintf("%s: Next returned counter %d, smallest pending is %d", desc(), got.counter, want.counter), fmt.Sprint(hist))
						return
					}
					if !remove(got) {
						rep.Violation("C15/priority-duplicate", desc()+": Next returned an item that is not pending", fmt.Sprint(hist))
						return
					}
				}
			case "nextall":
				var out []*item
				_ = pq.NextAll(func(n *item) error { out = append(out, n); return nil })
				if len(out) != len(ref) {
					rep.Violation("C15/priority-nextall-count", fmt.Sprintf("%s: NextAll yielded %d items, %d pending", desc(), len(out), len(ref)), fmt.Sprint(hist))
					return
				}
				for i, it := range out {
					if i > 0 && out[i-1].counter > it.counter {
						rep.Violation("C15/priority-nextall-order", desc(), fmt.Sprint(hist))
						return
					}
					if !remove(it) {
						rep.Violation("C15/priority-duplicate", desc(), fmt.Sprint(hist))
						return
					}
				}
			case "size":
				if pq.Size() != len(ref) {
					rep.Violation("C15/priority-size", fmt.Sprintf("%s: Size=%d, pending=%d", desc(), pq.Size(), len(ref)), fmt.Sprint(hist))
					return
				}
			}
		}
		rep.Eval(fmt.Sprintf("priority/len=%d/pending=%d", len(hist), len(ref)))
	}
	rec = func(hist []op) {
		if len(hist) > 0 {
			run(hist)
		}
		if len(hist) == depth {
			return
		}
		for _, o := range alphabet {
			rec(append(append([]op{}, hist...), o))
		}
	}
	rec(nil)
	// every arrival order of up to 7 distinct counters, with one Next taken after the first s additions: the item
	// handed out is always the smallest pending one and the final drain is sorted
	{
		maxN := 6
		if vrep.Thorough() {
			maxN = 7
		}
		var perms int64
		var permute func(cur, rest []int)
		check := func(order []int) {
			n := len(order)
			for split := 0; split <= n; split++ {
				pq := NewPriorityQueue[*item]("p", &noopTracer[*item]{})
				pending := map[uint64]bool{}
				for _, c := range order[:split] {
					pq.Add(&item{id: c, counter: uint64(c)})
					pending[uint64(c)] = true
				}
				var got []uint64
				take := func() bool {
					it := pq.Next()
					if it == nil {
						return false
					}
					min := uint64(1 << 62)
					for c := range pending {
						if c < min {
							min = c
						}
					}
					if it.counter != min {
						rep.Violation("C15/priority-not-smallest", fmt.Sprintf("counters added in the order %v (Next after the first %d): Next returned counter %d, smallest pending is %d", order, split, it.counter, min), fmt.Sprint(order, split))
					}
					delete(pending, it.counter)
					got = append(got, it.counter)
					return true
				}
				if split > 0 && split < n {
					take()
				}
				for _, c := range order[split:] {
					pq.Add(&item{id: c, counter: uint64(c)})
					pending[uint64(c)] = true
				}
				for take() {
				}
				if len(got) != n {
					rep.Violation("C15/priority-count", fmt.Sprintf("order %v split %d: %d items handed out", order, split, len(got)), fmt.Sprint(order, split))
				}
				perms++
			}
		}
		permute = func(cur, rest []int) {
			if len(rest) == 0 {
				check(cur)
				return
			}
			for i := range rest {
				nr := append(append([]int{}, rest[:i]...), rest[i+1:]...)
				permute(append(append([]int{}, cur...), rest[i]), nr)
			}
		}
		for n := 1; n <= maxN; n++ {
			var all []int
			for c := 1; c <= n; c++ {
				all = append(all, c)
			}
			permute(nil, all)
		}
		rep.Eval("priority/arrival-orders")
		rep.Add("priority_arrival_orders", perms)
		rep.AddTransitions(perms)
	}
	rep.Add("priority_sequences", seqs)
	rep.AddTraces(seqs)
	rep.Sample(map[string]interface{}{"priority_queue": "all operation sequences", "alphabet": "add(1) add(2) add(3) next nextall size", "depth": depth, "sequences": seqs})

	// Add || Next || Next under the scheduler: nothing lost or duplicated
	setup := func(s *vsync.Sched) vsync.World {
		type w struct {
			pq  *PriorityQueue[*item]
			got []*item
		}
		wd := &w{pq: NewPriorityQueue[*item]("p", &noopTracer[*item]{})}
		wd.pq.Add(&item{id: 1, counter: 5})
		vsync.GoNamed("A", func() { wd.pq.Add(&item{id: 2, counter: 1}); wd.pq.Add(&item{id: 3, counter: 9}) })
		vsync.GoNamed("N1", func() {
			if it := wd.pq.Next(); it != nil {
				wd.got = append(wd.got, it)
			}
		})
		vsync.GoNamed("N2", func() {
			_ = wd.pq.NextAll(func(n *item) error { wd.got = append(wd.got, n); return nil })
		})
		return wd
	}
	_ = setup
	e := &vsync.Explorer{Opt: vsync.Options{Bound: 3, MaxSteps: 200}, Setup: func(s *vsync.Sched) vsync.World {
		pq := NewPriorityQueue[*item]("p", &noopTracer[*item]{})
		got := &[]*item{}
		pq.Add(&item{id: 1, counter: 5})
		vsync.GoNamed("A", func() { pq.Add(&item{id: 2, counter: 1}); pq.Add(&item{id: 3, counter: 9}) })
		vsync.GoNamed("N1", func() {
			if it := pq.Next(); it != nil {
				*got = append(*got, it)
			}
		})
		vsync.GoNamed("N2", func() {
			_ = pq.NextAll(func(n *item) error { *got = append(*got, n); return nil })
		})
		return []interface{}{pq, got}
	}, Check: func(x *vsync.Execution, wd vsync.World) (string, *vsync.Verdict) {
		pq := wd.([]interface{})[0].(*PriorityQueue[*item])
		got := *(wd.([]interface{})[1].(*[]*item))
		ids := map[int]int{}
		for _, it := range got {
			if it == nil {
				return "nil", &vsync.Verdict{Sig: "C15/priority-hands-out-nothing", Desc: "NextAll handed a nil item to its callback (the queue was emptied by a concurrent Next between its size check and its pop)"}
			}
			ids[it.id]++
		}
		_ = pq.NextAll(func(n *item) error {
			if n != nil {
				ids[n.id]++
			}
			return nil
		})
		o := fmt.Sprint(len(got))
		for id := 1; id <= 3; id++ {
			if ids[id] != 1 {
				return o, &vsync.Verdict{Sig: "C15/priority-concurrent-loss", Desc: fmt.Sprintf("item %d seen %d times", id, ids[id])}
			}
		}
		if x.Deadlock || len(x.Panics) > 0 {
			return o, &vsync.Verdict{Sig: "C15/priority-concurrent-deadlock", Desc: fmt.Sprint(x.Blocked, x.Panics)}
		}
		return o, nil
	}}
	e.OnViol = func(x *vsync.Execution, v *vsync.Verdict) {
		rep.Violation(v.Sig, fmt.Sprintf("priority queue Add||Next||NextAll schedule %v: %s", x.Choices, v.Desc), x.Choices)
	}
	e.Run()
	rep.AddStates(e.Stats.Nodes)
	rep.AddTransitions(e.Stats.StepsTotal)
	rep.AddTraces(e.Stats.Executions)
	rep.Add("executions", e.Stats.Executions)
}
