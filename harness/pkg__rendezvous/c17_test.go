//go:build verif

package rendezvous

import (
	"bytes"
	"crypto/hmac"
	"crypto/sha256"
	"encoding/base64"
	"encoding/binary"
	"fmt"
	"sort"
	"strings"
	"testing"
	stdtime "time"

	"berty.tech/weshnet/v2/internal/zzverif/vrep"
	"berty.tech/weshnet/v2/internal/zzverif/vtime"
)

// independent reference: HMAC-SHA256 keyed by topic||seed over the big-endian period start
func refPoint(topic string, seed []byte, t stdtime.Time, interval stdtime.Duration) []byte {
	sec := int64(interval / stdtime.Second)
	start := (t.Unix() / sec) * sec
	key := append(append([]byte{}, []byte(topic)...), seed...)
	mac := hmac.New(sha256.New, key)
	var b [8]byte
	binary.BigEndian.PutUint64(b[:], uint64(start))
	mac.Write(b[:])
	return mac.Sum(nil)
}

func periodStart(t stdtime.Time, interval stdtime.Duration) int64 {
	sec := int64(interval / stdtime.Second)
	return (t.Unix() / sec) * sec
}

var t0 = stdtime.Unix(1_700_000_000, 0) // a multiple of 1 s and 2 s; 1 h periods start at ...+800 s

type c17Op struct {
	Kind string `json:"op"`
	Arg  int64  `json:"arg,omitempty"`
}

func (o c17Op) String() string {
	if o.Arg != 0 {
		return fmt.Sprintf("%s(%d)", o.Kind, o.Arg)
	}
	return o.Kind
}

type peerSt struct {
	ri         *RotationInterval
	registered bool
	// reference bookkeeping
	lastResolvePeriod int64 // period start of the last successful resolve, -1 none
	curRot            []byte
	prevRot           []byte
	prevDeadline      stdtime.Time
}

type c17World struct {
	interval stdtime.Duration
	P, Q     *peerSt
	topic    string
	seed     []byte
}

func (w *c17World) canon() string {
	var sb strings.Builder
	now := vtime.Now()
	fmt.Fprintf(&sb, "t=%d|", now.Unix()-t0.Unix())
	for _, p := range []*peerSt{w.P, w.Q} {
		var ks []string
		for k, pt := range p.ri.cacheTopics {
			ks = append(ks, fmt.Sprintf("T:%s>%x@%d", k, pt.rotation[:4], pt.deadline.Unix()-t0.Unix()))
		}
		for k, pt := range p.ri.cacheRotations {
			ks = append(ks, fmt.Sprintf("R:%.6s>%s@%d", k, pt.topic, pt.deadline.Unix()-t0.Unix()))
		}
		sort.Strings(ks)
		fmt.Fprintf(&sb, "%v %d %x %x|", ks, p.lastResolvePeriod-t0.Unix(), first4(p.curRot), first4(p.prevRot))
	}
	for _, d := range vtime.Pending() {
		fmt.Fprintf(&sb, "timer@%d ", d.Unix()-t0.Unix())
	}
	return sb.String()
}

func first4(b []byte) []byte {
	if len(b) > 4 {
		return b[:4]
	}
	return b
}

// apply executes one operation on the real objects and checks the oracle; returns a violation (sig, desc) or "".
func (w *c17World) apply(op c17Op, rep *vrep.Report) (string, string) {
	now := vtime.Now()
	I := w.interval
	resolve := func(p *peerSt, who string) (string, string) {
		pt, err := p.ri.PointForTopic(w.topic)
		if !p.registered {
			if err == nil {
				return "C17/resolve-unregistered", who + " resolved a topic it never registered"
			}
			rep.Eval("resolve/unregistered/refused")
			return "", ""
		}
		if err != nil {
			return "C17/resolve-failed", fmt.Sprintf("%s cannot resolve its registered topic at t0+%ds: %v", who, now.Unix()-t0.Unix(), err)
		}
		want := refPoint(w.topic, w.seed, now, I)
		stale := !bytes.Equal(pt.RawRotationTopic(), want)
		rep.Eval(fmt.Sprintf("resolve/I=%s/stale=%v/deadline-in-future=%v", I, stale, pt.Deadline().After(now)))
		if stale {
			return "C17/stale-point", fmt.Sprintf("%s resolves the topic at t0+%ds (period start t0+%d) to the point of another period (deadline t0+%d)", who, now.Unix()-t0.Unix(), periodStart(now, I)-t0.Unix(), pt.Deadline().Unix()-t0.Unix())
		}
		if !pt.Deadline().After(now) {
			return "C17/deadline-not-in-future", fmt.Sprintf("%s: deadline t0+%d at time t0+%d", who, pt.Deadline().Unix()-t0.Unix(), now.Unix()-t0.Unix())
		}
		if pt.Topic() != w.topic || !bytes.Equal(pt.Seed(), w.seed) {
			return "C17/wrong-topic", "resolved point carries another topic/seed"
		}
		if !bytes.Equal(p.curRot, pt.RawRotationTopic()) {
			if p.curRot != nil {
				p.prevRot = p.curRot
				sec := int64(I / stdtime.Second)
				p.prevDeadline = stdtime.Unix(p.lastResolvePeriodStartOf(p.curRot, w, sec)+sec, 0)
			}
			p.curRot = append([]byte{}, pt.RawRotationTopic()...)
		}
		p.lastResolvePeriod = periodStart(now, I)
		return "", ""
	}
	exchange := func(from, to *peerSt, a, b string) (string, string) {
		if !from.registered {
			return "", ""
		}
		if s, d := resolve(from, a); s != "" {
			return s, d
		}
		val := from.curRot
		pt, err := to.ri.PointForRawRotation(val)
		must := to.registered && to.lastResolvePeriod == periodStart(now, I)
		rep.Eval(fmt.Sprintf("exchange/receiver-resolved-this-period=%v/accepted=%v", must, err == nil))
		if must && err != nil {
			return "C17/peer-value-refused", fmt.Sprintf("%s resolved the topic in the current period and refuses %s's current rotation value: %v", b, a, err)
		}
		if err == nil && pt.Topic() != w.topic {
			return "C17/peer-value-wrong-topic", "rotation value mapped to another topic"
		}
		return "", ""
	}
	switch op.Kind {
	case "P.register":
		w.P.ri.RegisterRotation(now, w.topic, w.seed)
		if !w.P.registered {
			w.P.registered = true
		}
		w.P.noteRegister(w, now)
	case "Q.register":
		w.Q.ri.RegisterRotation(now, w.topic, w.seed)
		w.Q.registered = true
		w.Q.noteRegister(w, now)
	case "advance":
		vtime.Advance(stdtime.Duration(op.Arg) * stdtime.Second)
	case "advance-to-period-end":
		sec := int64(I / stdtime.Second)
		end := periodStart(now, I) + sec
		vtime.Set(stdtime.Unix(end+op.Arg, 0))
	case "P.resolve":
		return resolve(w.P, "P")
	case "Q.resolve":
		return resolve(w.Q, "Q")
	case "P->Q":
		return exchange(w.P, w.Q, "P", "Q")
	case "Q->P":
		return exchange(w.Q, w.P, "Q", "P")
	case "P.own-previous":
		if w.P.prevRot == nil {
			return "", ""
		}
		_, err := w.P.ri.PointForRawRotation(w.P.prevRot)
		within := now.Before(w.P.prevDeadline.Add(RotationGracePeriod))
		rep.Eval(fmt.Sprintf("own-previous/within-grace=%v/accepted=%v", within, err == nil))
		if within && err != nil {
			return "C17/own-previous-refused", fmt.Sprintf("P refuses its own previous rotation value %ds after its deadline (grace period %s): %v", now.Unix()-w.P.prevDeadline.Unix(), RotationGracePeriod, err)
		}
	case "foreign":
		for i, val := range [][]byte{
			refPoint(w.topic, []byte("other-seed-other-seed-other-seed!"), now, I),
			refPoint("unknown-topic", w.seed, now, I),
			bytes.Repeat([]byte{0}, 32), nil, refPoint(w.topic, w.seed, now.Add(100*I), I),
		} {
			for _, p := range []*peerSt{w.P, w.Q} {
				_, err := p.ri.PointForRawRotation(val)
				rep.Eval(fmt.Sprintf("foreign/%d/refused=%v", i, err != nil))
				if err == nil {
					return "C17/foreign-value-accepted", fmt.Sprintf("rotation value #%d (other seed / unknown topic / garbage / far future) accepted", i)
				}
			}
		}
		if _, err := w.P.ri.PointForTopic("unknown-topic"); err == nil {
			return "C17/unknown-topic-resolved", "unknown topic resolved"
		}
	}
	return "", ""
}

func (p *peerSt) noteRegister(w *c17World, now stdtime.Time) {
	rot := refPoint(w.topic, w.seed, now, w.interval)
	if p.curRot != nil && !bytes.Equal(p.curRot, rot) {
		p.prevRot = p.curRot
		sec := int64(w.interval / stdtime.Second)
		p.prevDeadline = stdtime.Unix(p.lastResolvePeriodStartOf(p.curRot, w, sec)+sec, 0)
	}
	p.curRot = rot
	p.lastResolvePeriod = periodStart(now, w.interval) // registering computes the current point
}

// lastResolvePeriodStartOf finds the period start whose reference point is rot (searching back from now).
func (p *peerSt) lastResolvePeriodStartOf(rot []byte, w *c17World, sec int64) int64 {
	now := vtime.Now()
	start := periodStart(now, w.interval)
	for k := int64(0); k < 200000; k++ {
		t := stdtime.Unix(start-k*sec, 0)
		if bytes.Equal(refPoint(w.topic, w.seed, t, w.interval), rot) {
			return start - k*sec
		}
		if start-k*sec < t0.Unix()-2*sec {
			break
		}
	}
	return start
}

func newWorld(interval stdtime.Duration) *c17World {
	vtime.Enable(t0, 0)
	return &c17World{interval: interval, topic: "topic-1", seed: []byte("seed-seed-seed-seed-seed-seed-32"),
		P: &peerSt{ri: NewRotationInterval(interval), lastResolvePeriod: -1}, Q: &peerSt{ri: NewRotationInterval(interval), lastResolvePeriod: -1}}
}

func TestVerifC17(t *testing.T) {
	rep := vrep.New("C17")
	defer func() {
		vtime.Disable()
		if err := rep.Finish(); err != nil {
			t.Fatal(err)
		}
		if rep.NViolations() > 0 {
			t.Fail()
		}
	}()
	c17Pure(rep)
	depth := 6
	if vrep.Thorough() {
		depth = 8
	}
	grace := int64(RotationGracePeriod / stdtime.Second)
	for _, interval := range []stdtime.Duration{stdtime.Second, 2 * stdtime.Second, stdtime.Hour} {
		ops := []c17Op{{Kind: "P.register"}, {Kind: "Q.register"}, {Kind: "P.resolve"}, {Kind: "Q.resolve"}, {Kind: "P->Q"}, {Kind: "Q->P"}, {Kind: "P.own-previous"}, {Kind: "foreign"},
			{Kind: "advance", Arg: 1}, {Kind: "advance-to-period-end", Arg: -1}, {Kind: "advance-to-period-end", Arg: 0}, {Kind: "advance", Arg: grace - 1}, {Kind: "advance", Arg: grace + 1}}
		if interval == stdtime.Hour {
			ops[len(ops)-1] = c17Op{Kind: "advance", Arg: 86400 + 3700}
		}
		type node struct{ hist []c17Op }
		build := func(h []c17Op) (*c17World, string, string) {
			w := newWorld(interval)
			for _, op := range h {
				if s, d := w.apply(op, vrep.New("scratch")); s != "" {
					return w, s, d
				}
			}
			return w, "", ""
		}
		seen := map[string]bool{}
		w0 := newWorld(interval)
		seen[w0.canon()] = true
		frontier := []node{{}}
		var states, transitions int64 = 1, 0
		maxDepth := 0
		var lastHist []c17Op
		reported := map[string]bool{}
		for len(frontier) > 0 {
			n := frontier[0]
			frontier = frontier[1:]
			if len(n.hist) > maxDepth {
				maxDepth = len(n.hist)
			}
			if len(n.hist) == depth {
				continue
			}
			for _, op := range ops {
				w, s, _ := build(n.hist)
				if s != "" {
					break // prefix already violates (reported when first reached)
				}
				transitions++
				sig, desc := w.apply(op, rep)
				nh := append(append([]c17Op{}, n.hist...), op)
				if sig != "" {
					if !reported[sig] {
						reported[sig] = true
						rep.Violation(sig, fmt.Sprintf("interval %s, history %v: %s", interval, nh, desc), map[string]interface{}{"interval_s": int64(interval / stdtime.Second), "history": nh})
					}
					continue
				}
				key := w.canon()
				if seen[key] {
					continue
				}
				seen[key] = true
				states++
				lastHist = nh
				frontier = append(frontier, node{hist: nh})
			}
		}
		rep.AddStates(states)
		rep.AddTransitions(transitions)
		rep.AddTraces(transitions)
		rep.Sample(map[string]interface{}{"interval": interval.String(), "depth": depth, "states": states, "transitions": transitions, "deepest_history": fmt.Sprint(lastHist)})
	}
}

// c17Pure: the pure functions over a grid of topics, seeds, instants and intervals.
func c17Pure(rep *vrep.Report) {
	topics := []string{"", "t", strings.Repeat("T", 64)}
	seeds := [][]byte{nil, bytes.Repeat([]byte{1}, 32), bytes.Repeat([]byte{2}, 32)}
	intervals := []stdtime.Duration{stdtime.Second, 2 * stdtime.Second, stdtime.Hour, 24 * stdtime.Hour, -2 * stdtime.Second}
	seenPoints := map[string]string{}
	for _, I := range intervals {
		absI := I
		if absI < 0 {
			absI = -absI
		}
		sec := int64(absI / stdtime.Second)
		base := (t0.Unix() / sec) * sec
		for per := int64(0); per < 3; per++ {
			start := base + per*sec
			for _, off := range []int64{0, 1, sec - 1, sec} {
				for _, ns := range []int64{0, 1, 999999999} {
					if off < 0 || (off == sec && ns != 0) {
						continue
					}
					at := stdtime.Unix(start+off, ns)
					r := RoundTimePeriod(at, I)
					nx := NextTimePeriod(at, I)
					wantStart := (at.Unix() / sec) * sec
					ok := r.Unix() == wantStart && nx.Unix() == wantStart+sec && !r.After(at) && nx.After(at) && RoundTimePeriod(r, I).Equal(r)
					rep.Eval(fmt.Sprintf("pure/round/I=%s/ok=%v", I, ok))
					if !ok {
						rep.Violation("C17/period-rounding", fmt.Sprintf("interval %s at %d.%09d: round=%d next=%d", I, at.Unix(), ns, r.Unix(), nx.Unix()), map[string]interface{}{"interval": I.String(), "at": at.Unix()})
					}
					// the same instant as peers in other time zones carry it: same period, same deadline, same point
					for _, loc := range []*stdtime.Location{stdtime.UTC, stdtime.FixedZone("+05:30", 5*3600+1800), stdtime.FixedZone("-08:00", -8*3600), stdtime.FixedZone("+12:45", 12*3600+2700)} {
						atL := at.In(loc)
						rl, nl := RoundTimePeriod(atL, I), NextTimePeriod(atL, I)
						same := rl.Unix() == r.Unix() && nl.Unix() == nx.Unix() && bytes.Equal(GenerateRendezvousPointForPeriod([]byte("t"), seeds[1], rl), GenerateRendezvousPointForPeriod([]byte("t"), seeds[1], r))
						rep.Eval(fmt.Sprintf("pure/location/I=%s/same=%v", I, same))
						if !same {
							rep.Violation("C17/period-depends-on-location", fmt.Sprintf("interval %s, instant %d as a time value in zone %s: period start %d (deadline %d), in the reference zone %d (deadline %d): two peers in different zones derive different points for the same instant", I, at.Unix(), loc, rl.Unix(), nl.Unix(), r.Unix(), nx.Unix()), map[string]interface{}{"interval": I.String(), "at": at.Unix(), "zone": loc.String()})
						}
					}
					for _, tp := range topics {
						for si, sd := range seeds {
							tb := []byte(tp)
							got := GenerateRendezvousPointForPeriod(tb, sd, r)
							again := GenerateRendezvousPointForPeriod([]byte(tp), sd, RoundTimePeriod(at.Add(0), I))
							if !bytes.Equal(got, again) || !bytes.Equal(got, refPoint(tp, sd, at, absI)) || string(tb) != tp {
								rep.Violation("C17/point-not-deterministic", fmt.Sprintf("topic %q seed#%d at %d", tp, si, at.Unix()), nil)
							}
							k := base64.StdEncoding.EncodeToString(got)
							id := fmt.Sprintf("%q/%d/%d", tp, si, r.Unix())
							if prev, ok := seenPoints[k]; ok && prev != id && !(tp == "" && false) {
								rep.Violation("C17/point-collision", fmt.Sprintf("%s and %s give the same point", prev, id), nil)
							}
							seenPoints[k] = id
							rep.Eval("pure/point")
						}
					}
				}
			}
		}
	}
	rep.Sample(map[string]interface{}{"pure": "topics x seeds x instants x intervals", "distinct_points": len(seenPoints)})
}
