//go:build verif

package sw

import (
	"context"
	"encoding/base64"
	"encoding/json"
	"fmt"
	"os"
	"sort"
	"sync"
	"testing"
	stdtime "time"

	"github.com/libp2p/go-libp2p/core/discovery"
	"github.com/libp2p/go-libp2p/core/peer"
	mocknet "github.com/libp2p/go-libp2p/p2p/net/mock"
	"go.uber.org/zap"

	"berty.tech/weshnet/v2/internal/zzverif/vrep"
	"berty.tech/weshnet/v2/internal/zzverif/vtime"
	"berty.tech/weshnet/v2/pkg/rendezvous"
	"berty.tech/weshnet/v2/pkg/tinder"
)

// This package is the real /repo/tinder_swiper.go (package clause renamed) on the virtual clock - clock reads,
// sleeps, timers and context deadlines - against the real tinder service with a recording discovery driver.
// The swiper is where a peer turns (topic, seed, now) into the rotation topic it looks for / advertises: C17's
// "a peer that registered a topic at any earlier time resolves it, at time t, to the point of the period containing
// t" is judged on what the watch loop is subscribed to and on what the announce loop advertises once they have
// settled after every step of every history over {start watching, start announcing, advance the clock}.

var t0 = stdtime.Unix(1_700_000_003, 0) // three seconds into a 10 s period

type subRec struct {
	topic string
	ctx   context.Context
}

type recDriver struct {
	mu    sync.Mutex
	subs  []*subRec
	advs  []*subRec
	finds []string
}

func (d *recDriver) Name() string { return "rec" }

func (d *recDriver) Subscribe(ctx context.Context, topic string, _ ...discovery.Option) (<-chan peer.AddrInfo, error) {
	d.mu.Lock()
	d.subs = append(d.subs, &subRec{topic: topic, ctx: ctx})
	d.mu.Unlock()
	ch := make(chan peer.AddrInfo)
	go func() { <-ctx.Done(); close(ch) }()
	return ch, nil
}

func (d *recDriver) Unregister(context.Context, string, ...discovery.Option) error { return nil }

func (d *recDriver) Advertise(ctx context.Context, topic string, _ ...discovery.Option) (stdtime.Duration, error) {
	d.mu.Lock()
	d.advs = append(d.advs, &subRec{topic: topic, ctx: ctx})
	d.mu.Unlock()
	return 24 * stdtime.Hour, nil
}

func (d *recDriver) FindPeers(_ context.Context, topic string, _ ...discovery.Option) (<-chan peer.AddrInfo, error) {
	d.mu.Lock()
	d.finds = append(d.finds, topic)
	d.mu.Unlock()
	ch := make(chan peer.AddrInfo)
	close(ch)
	return ch, nil
}

// live returns the distinct topics of the recorded calls whose context is still alive
func live(recs []*subRec) []string {
	set := map[string]bool{}
	for _, r := range recs {
		if r.ctx.Err() == nil {
			set[r.topic] = true
		}
	}
	var out []string
	for k := range set {
		out = append(out, k)
	}
	sort.Strings(out)
	return out
}

type swOp struct {
	Kind string `json:"op"`
	Arg  int64  `json:"arg_s,omitempty"` // seconds
}

type swWorld struct {
	drv      *recDriver
	sw       *Swiper
	rp       *rendezvous.RotationInterval
	ctx      context.Context
	cancel   context.CancelFunc
	watching bool
	announce bool
	mn       mocknet.Mocknet
	svc      *tinder.Service
}

var swTopic = []byte("contact-public-key-contact-publi")
var swSeed = []byte("rendezvous-seed-rendezvous-seed!")

func newSwWorld(interval stdtime.Duration) (*swWorld, error) {
	mn := mocknet.New()
	h, err := mn.GenPeer()
	if err != nil {
		return nil, err
	}
	drv := &recDriver{}
	svc, err := tinder.NewService(h, zap.NewNop(), drv)
	if err != nil {
		return nil, err
	}
	rp := rendezvous.NewRotationInterval(interval)
	ctx, cancel := context.WithCancel(context.Background())
	return &swWorld{drv: drv, sw: NewSwiper(zap.NewNop(), svc, rp), rp: rp, ctx: ctx, cancel: cancel, mn: mn, svc: svc}, nil
}

func (w *swWorld) close() {
	w.cancel()
	_ = w.svc.Close()
	_ = w.mn.Close()
}

// expected rotation topic for the period containing the current virtual time, computed independently of the
// swiper's own bookkeeping (pure function of topic, seed, period)
func expectedTopic(interval stdtime.Duration) string {
	rp := rendezvous.NewRotationInterval(interval)
	return rp.NewRendezvousPointForPeriod(vtime.Now(), base64.StdEncoding.EncodeToString(swTopic), swSeed).RotationTopic()
}

// settled polls (real time: only goroutine hand-overs are waited for, every clock the code reads is virtual) until
// the observation matches, and reports the last observation otherwise.
func (w *swWorld) settled(interval stdtime.Duration, patience stdtime.Duration) (bool, string) {
	deadline := stdtime.Now().Add(patience)
	var last string
	for {
		want := expectedTopic(interval)
		ok := true
		last = ""
		w.drv.mu.Lock()
		if w.watching {
			l := live(w.drv.subs)
			if len(l) != 1 || l[0] != want {
				ok = false
				last += fmt.Sprintf("watch loop is subscribed to %d live rotation topic(s) %v, the point of the period containing now is %q; ", len(l), short(l), want[:12])
			}
		}
		if w.announce {
			l := live(w.drv.advs)
			if len(l) != 1 || l[0] != want {
				ok = false
				last += fmt.Sprintf("announce loop advertises %d live rotation topic(s) %v, the point of the period containing now is %q; ", len(l), short(l), want[:12])
			}
		}
		w.drv.mu.Unlock()
		if ok {
			// stable: look again a moment later
			stdtime.Sleep(20 * stdtime.Millisecond)
			if expectedTopic(interval) == want {
				return true, ""
			}
			continue
		}
		if stdtime.Now().After(deadline) {
			return false, last
		}
		stdtime.Sleep(5 * stdtime.Millisecond)
	}
}

func short(l []string) []string {
	var out []string
	for _, s := range l {
		if len(s) > 12 {
			s = s[:12]
		}
		out = append(out, s)
	}
	return out
}

func (w *swWorld) apply(op swOp) {
	switch op.Kind {
	case "watch":
		if !w.watching {
			w.watching = true
			ch := w.sw.WatchTopic(w.ctx, swTopic, swSeed)
			go func() {
				for range ch {
				}
			}()
		}
	case "announce":
		if !w.announce {
			w.announce = true
			w.sw.Announce(w.ctx, swTopic, swSeed)
		}
	case "advance":
		vtime.Advance(stdtime.Duration(op.Arg) * stdtime.Second)
	}
}

func TestVerifC17SW(t *testing.T) {
	rep := vrep.New("C17")
	defer func() {
		vtime.Disable()
		if err := rep.Finish(); err != nil {
			t.Fatal(err)
		}
		if rep.NViolations() > 0 {
			t.Fail()
		}
	}()
	depth := 4
	if vrep.Thorough() {
		depth = 5
	}
	interval := 10 * stdtime.Second
	// advances: within the period, across one boundary, exactly to a boundary, across several periods
	ops := []swOp{{Kind: "watch"}, {Kind: "announce"}, {Kind: "advance", Arg: 2}, {Kind: "advance", Arg: 7}, {Kind: "advance", Arg: 12}, {Kind: "advance", Arg: 35}}
	var states, transitions int64
	reported := map[string]bool{}
	nviol := 0
	run := func(hist []swOp, patience stdtime.Duration) (string, string) {
		vtime.Enable(t0, stdtime.Microsecond) // every clock reading moves the clock on: code that loops until the clock has passed an instant terminates, as on a real clock
		w, err := newSwWorld(interval)
		if err != nil {
			panic(err)
		}
		defer w.close()
		for i, o := range hist {
			w.apply(o)
			if i < len(hist)-1 {
				// earlier steps held when their history was explored; let the loops settle before going on
				w.settled(interval, patience)
				continue
			}
			ok, obs := w.settled(interval, patience)
			rep.Eval(fmt.Sprintf("swiper/%s/watching=%v/announcing=%v/settled-on-current-point=%v", o.Kind, w.watching, w.announce, ok))
			if !ok {
				sig := "C17/swiper-not-on-the-current-period's-point"
				return sig, fmt.Sprintf("at t0+%ds: %s", vtime.Now().Unix()-t0.Unix(), obs)
			}
		}
		return "", ""
	}
	if rp := os.Getenv("VERIF_REPLAY"); rp != "" {
		var f struct {
			Replay struct {
				History []swOp `json:"history"`
			} `json:"replay"`
		}
		b, err := os.ReadFile(rp)
		if err == nil && json.Unmarshal(b, &f) == nil && len(f.Replay.History) > 0 {
			if sig, desc := run(f.Replay.History, 15*stdtime.Second); sig != "" {
				rep.Violation(sig, fmt.Sprintf("rotation interval %s, history %v: %s", interval, f.Replay.History, desc), map[string]interface{}{"part": "swiper", "history": f.Replay.History})
			}
			return
		}
	}
	var rec func(hist []swOp)
	rec = func(hist []swOp) {
		states++
		if len(hist) == depth || nviol >= 3 {
			return
		}
		for _, op := range ops {
			if (op.Kind == "watch" || op.Kind == "announce") && contains(hist, op.Kind) {
				continue
			}
			if op.Kind == "advance" && len(hist) == 0 {
				continue // nothing runs yet: an advance first is the same as a later start
			}
			nh := append(append([]swOp{}, hist...), op)
			transitions++
			sig, desc := run(nh, 3*stdtime.Second)
			if sig != "" {
				// believed only when a second, more patient run of the same history shows it again
				sig2, desc2 := run(nh, 15*stdtime.Second)
				if sig2 == "" {
					rep.Note("history %v settled only in the patient run (slow machine); not a violation", nh)
				} else {
					nviol++
					if !reported[sig2] {
						reported[sig2] = true
						rep.Violation(sig2, fmt.Sprintf("rotation interval %s, history %v: %s", interval, nh, desc2), map[string]interface{}{"part": "swiper", "interval_s": int64(interval / stdtime.Second), "history": nh})
					}
					_ = desc
					continue
				}
			}
			rec(nh)
		}
	}
	rec(nil)
	rep.AddStates(states)
	rep.AddTransitions(transitions)
	rep.AddTraces(transitions)
	rep.Sample(map[string]interface{}{"part": "swiper watch/announce loops on the virtual clock", "interval": interval.String(), "depth": depth, "histories": states})
}

func contains(hist []swOp, kind string) bool {
	for _, o := range hist {
		if o.Kind == kind {
			return true
		}
	}
	return false
}
