//go:build verif

package vsync

import (
	"fmt"
	"testing"

	"berty.tech/weshnet/v2/internal/zzverif/vrep"
)

// Engine self-tests: the explorer must find a textbook lost wake-up and a lock-order inversion with <= 1
// preemption, and must not flag a correct condition-variable program nor an unbuffered rendezvous at bound 3.

type stWorld struct {
	done  bool
	ready bool
	got   int
}

func stRun(bound int, setup func(s *Sched) World, check func(x *Execution, w World) (string, *Verdict)) (found *Verdict, st Stats) {
	for b := 0; b <= bound && found == nil; b++ {
		e := &Explorer{Opt: Options{Bound: b, MaxSteps: 300, StopAtFirst: true}, Setup: setup, Check: check}
		e.OnViol = func(x *Execution, v *Verdict) {
			if found == nil {
				v.Desc = fmt.Sprintf("bound %d schedule %v: %s", b, x.Choices, v.Desc)
				found = v
			}
		}
		e.Run()
		st = e.Stats
	}
	return
}

func deadlockCheck(x *Execution, w World) (string, *Verdict) {
	if x.Deadlock {
		return "deadlock", &Verdict{Sig: "deadlock", Desc: fmt.Sprint(x.Blocked)}
	}
	if len(x.Panics) > 0 {
		return "panic", &Verdict{Sig: "panic", Desc: fmt.Sprint(x.Panics)}
	}
	return "ok", nil
}

func TestVerifSelfTest(t *testing.T) {
	rep := vrep.New("SELFTEST")
	defer func() {
		_ = rep.Finish()
		if rep.NViolations() > 0 {
			t.Fail()
		}
	}()
	// 1. lost wake-up: waiter checks the flag under the lock, unlocks, then waits on an unbuffered channel;
	//    the setter sets the flag and signals non-blockingly.
	lost := func(s *Sched) World {
		var mu Mutex
		flag := false
		sig := Make[struct{}]()
		GoNamed("waiter", func() {
			mu.Lock()
			if !flag {
				mu.Unlock()
				Recv(sig)
				mu.Lock()
			}
			mu.Unlock()
		})
		GoNamed("setter", func() {
			mu.Lock()
			flag = true
			Select(true, SendCase(sig, struct{}{}))
			mu.Unlock()
		})
		return nil
	}
	v, st := stRun(1, lost, deadlockCheck)
	rep.Eval(fmt.Sprintf("lost-wakeup/found=%v", v != nil))
	rep.AddStates(st.Nodes)
	rep.AddTransitions(st.StepsTotal)
	if v == nil {
		rep.Violation("SELFTEST/lost-wakeup-not-found", "explorer failed to find the textbook lost wake-up with <=1 preemption", nil)
	}
	// 2. lock-order inversion
	inv := func(s *Sched) World {
		var a, b Mutex
		GoNamed("t1", func() { a.Lock(); b.Lock(); b.Unlock(); a.Unlock() })
		GoNamed("t2", func() { b.Lock(); a.Lock(); a.Unlock(); b.Unlock() })
		return nil
	}
	v, st = stRun(1, inv, deadlockCheck)
	rep.Eval(fmt.Sprintf("lock-inversion/found=%v", v != nil))
	rep.AddStates(st.Nodes)
	rep.AddTransitions(st.StepsTotal)
	if v == nil {
		rep.Violation("SELFTEST/inversion-not-found", "explorer failed to find the lock-order inversion with <=1 preemption", nil)
	}
	// 3. correct condition-variable style program (closed-channel broadcast, channel taken under the lock)
	good := func(s *Sched) World {
		var mu, cmu Mutex
		var cc chan struct{}
		flag := false
		getc := func() chan struct{} {
			cmu.Lock()
			defer cmu.Unlock()
			if cc == nil {
				cc = Make[struct{}]()
			}
			return cc
		}
		for i := 0; i < 2; i++ {
			GoNamed(fmt.Sprintf("waiter%d", i), func() {
				mu.Lock()
				for !flag {
					c := getc()
					mu.Unlock()
					Recv(c)
					mu.Lock()
				}
				mu.Unlock()
			})
		}
		GoNamed("setter", func() {
			mu.Lock()
			flag = true
			cmu.Lock()
			if cc != nil {
				Close(cc)
				cc = nil
			}
			cmu.Unlock()
			mu.Unlock()
		})
		return nil
	}
	v, st = stRun(3, good, deadlockCheck)
	rep.Eval(fmt.Sprintf("correct-condvar/flagged=%v/execs=%d", v != nil, st.Executions))
	rep.AddStates(st.Nodes)
	rep.AddTransitions(st.StepsTotal)
	if v != nil {
		rep.Violation("SELFTEST/false-alarm-condvar", v.Desc, nil)
	}
	// 4. unbuffered rendezvous, two senders one receiver; RWMutex reader/writer; WaitGroup
	rdv := func(s *Sched) World {
		c := Make[int]()
		sum := new(int)
		var wg WaitGroup
		var rw RWMutex
		wg.Add(2)
		GoNamed("s1", func() { Send(c, 1); wg.Done() })
		GoNamed("s2", func() { Send(c, 2); wg.Done() })
		GoNamed("r", func() {
			a := Recv(c)
			b, ok := Recv2(c)
			rw.Lock()
			if ok {
				*sum = a + b
			}
			rw.Unlock()
		})
		GoNamed("w", func() { wg.Wait(); rw.RLock(); _ = *sum; rw.RUnlock() })
		return sum
	}
	v, st = stRun(3, rdv, func(x *Execution, w World) (string, *Verdict) {
		if o, v := deadlockCheck(x, w); v != nil {
			return o, v
		}
		if *(w.(*int)) != 3 {
			return "bad", &Verdict{Sig: "sum", Desc: fmt.Sprint(*(w.(*int)))}
		}
		return "ok", nil
	})
	rep.Eval(fmt.Sprintf("rendezvous/flagged=%v/execs=%d", v != nil, st.Executions))
	rep.AddStates(st.Nodes)
	rep.AddTransitions(st.StepsTotal)
	if v != nil {
		rep.Violation("SELFTEST/false-alarm-rendezvous", v.Desc, nil)
	}
	// 5. recursive read lock with a writer in between deadlocks in Go (writer preference): must be found
	rr := func(s *Sched) World {
		var rw RWMutex
		GoNamed("reader", func() { rw.RLock(); rw.RLock(); rw.RUnlock(); rw.RUnlock() })
		GoNamed("writer", func() { rw.Lock(); rw.Unlock() })
		return nil
	}
	v, _ = stRun(2, rr, deadlockCheck)
	rep.Eval(fmt.Sprintf("recursive-rlock/found=%v", v != nil))
	if v == nil {
		rep.Violation("SELFTEST/recursive-rlock-not-found", "writer-preference deadlock not found", nil)
	}
}
