//go:build verif

package lifecycle

import (
	"context"
	"fmt"
	"testing"
	"time"

	"berty.tech/weshnet/v2/internal/zzverif/vrep"
	"berty.tech/weshnet/v2/internal/zzverif/vsync"
)

type lmWorld struct {
	m         *Manager
	final     State
	ret       []int // -1 not returned, 0 false, 1 true
	cancelled bool
	taskDone  bool
	waitedAll bool
	readers   []State
}

// lmScenario: waiters wait for a change away from StateActive while the updater applies a sequence of states.
func lmScenario(waiters int, seq []State, cancel, task bool) vsync.Scenario {
	name := fmt.Sprintf("waiters=%d updates=%v cancel=%v task=%v", waiters, seq, cancel, task)
	return vsync.Scenario{
		Name: name,
		Setup: func(s *vsync.Sched) vsync.World {
			w := &lmWorld{m: NewManager(StateActive), ret: make([]int, waiters)}
			ctx, cancelFn := context.WithCancel(context.Background())
			w.final = StateActive
			if len(seq) > 0 {
				w.final = seq[len(seq)-1]
			}
			for i := 0; i < waiters; i++ {
				i := i
				w.ret[i] = -1
				th := vsync.GoNamed(fmt.Sprintf("W%d", i), func() {
					if task {
						tk, ok := w.m.TaskWaitForStateChange(ctx, StateActive)
						if ok {
							w.ret[i] = 1
							tk.Done()
							w.taskDone = true
						} else {
							w.ret[i] = 0
						}
						return
					}
					if w.m.WaitForStateChange(ctx, StateActive) {
						w.ret[i] = 1
					} else {
						w.ret[i] = 0
					}
				})
				th.SetDaemon() // legit to stay blocked iff the final state equals what it last saw (checked below)
			}
			vsync.GoNamed("U", func() {
				for _, st := range seq {
					w.m.UpdateState(st)
				}
				if task {
					w.m.WaitForTasks()
					w.waitedAll = true
				}
			})
			vsync.GoNamed("R", func() { w.readers = append(w.readers, w.m.GetCurrentState()) })
			if cancel {
				vsync.GoNamed("X", func() {
					vsync.PointHere("cancel")
					w.cancelled = true
					cancelFn()
				})
			}
			_ = cancelFn
			return w
		},
		Check: func(x *vsync.Execution, wd vsync.World) (string, *vsync.Verdict) {
			w := wd.(*lmWorld)
			o := fmt.Sprintf("ret=%v blocked=%d waitedAll=%v", w.ret, len(x.BlockedAll), w.waitedAll)
			if len(x.Panics) > 0 {
				return o, &vsync.Verdict{Sig: "C16/LM-panic", Desc: fmt.Sprint(x.Panics)}
			}
			if x.Deadlock {
				return o, &vsync.Verdict{Sig: "C16/LM-deadlock", Desc: fmt.Sprint(x.BlockedAll)}
			}
			for i, r := range w.ret {
				switch r {
				case -1:
					if w.cancelled {
						return o, &vsync.Verdict{Sig: "C16/LM-cancel-ignored", Desc: fmt.Sprintf("waiter %d still blocked after cancellation: %v", i, x.BlockedAll)}
					}
					if w.final != StateActive {
						return o, &vsync.Verdict{Sig: "C16/LM-missed-update", Desc: fmt.Sprintf("final state %d differs from the state waiter %d waits to leave, yet it is blocked: %v", w.final, i, x.BlockedAll)}
					}
				case 0:
					if !w.cancelled {
						return o, &vsync.Verdict{Sig: "C16/LM-spurious-false", Desc: "wait returned false without cancellation"}
					}
				case 1:
					changed := false
					for _, st := range seq {
						if st != StateActive {
							changed = true
						}
					}
					if !changed {
						return o, &vsync.Verdict{Sig: "C16/LM-spurious-true", Desc: "wait returned true although the state never left the source state"}
					}
				}
			}
			return o, nil
		},
	}
}

func TestVerifC16LM(t *testing.T) {
	rep := vrep.New("C16")
	defer func() {
		if err := rep.Finish(); err != nil {
			t.Fatal(err)
		}
		if rep.NViolations() > 0 {
			t.Fail()
		}
	}()
	var scs []vsync.Scenario
	seqs := [][]State{{StateInactive}, {StateInactive, StateActive}, {StateActive, StateInactive}, {StateInactive, StateActive, StateInactive}}
	for _, wn := range []int{1, 2} {
		for _, sq := range seqs {
			for _, c := range []bool{false, true} {
				for _, task := range []bool{false, true} {
					if wn == 2 && len(sq) == 3 && !vrep.Thorough() {
						continue
					}
					scs = append(scs, lmScenario(wn, sq, c, task))
				}
			}
		}
	}
	bound, budget := 2, 4*time.Minute
	if vrep.Thorough() {
		bound, budget = 4, 20*time.Minute
	}
	vsync.ExploreScenarios(rep, "LM", scs, bound, 600, budget)
}
