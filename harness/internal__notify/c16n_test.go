//go:build verif

package notify

import (
	"context"
	"fmt"
	"testing"
	"time"

	"berty.tech/weshnet/v2/internal/zzverif/vrep"
	"berty.tech/weshnet/v2/internal/zzverif/vsync"
)

// Notify alone, used the way its clients use it: state is changed and Broadcast is called under L,
// waiters re-check the state under L before sleeping.
type nWorld struct {
	val       int
	seen      []int
	returned  []bool
	cancelled bool
	target    int
}

// cancelFirstOnly: every waiter has its own context and only waiter 0's is cancelled; the others must not be affected.
func nScenario(waiters, updates int, cancel bool, cancelFirstOnly bool) vsync.Scenario {
	name := fmt.Sprintf("waiters=%d updates=%d cancel=%v first-only=%v", waiters, updates, cancel, cancelFirstOnly)
	return vsync.Scenario{
		Name: name,
		Setup: func(s *vsync.Sched) vsync.World {
			w := &nWorld{target: updates, seen: make([]int, waiters), returned: make([]bool, waiters)}
			var l vsync.Mutex // the locker handed to Notify is a scheduler-visible mutex
			n := New(&l)
			ctx, cancelFn := context.WithCancel(context.Background())
			for i := 0; i < waiters; i++ {
				i := i
				wctx := ctx
				if cancelFirstOnly && i > 0 {
					wctx = context.Background()
				}
				vsync.GoNamed(fmt.Sprintf("W%d", i), func() {
					n.L.Lock()
					ok := true
					for w.val < w.target && ok {
						ok = n.Wait(wctx)
					}
					w.seen[i] = w.val
					n.L.Unlock()
					w.returned[i] = ok
					if !ok {
						w.seen[i] = -1
					}
				})
			}
			vsync.GoNamed("U", func() {
				for k := 0; k < updates; k++ {
					n.L.Lock()
					w.val++
					n.Broadcast()
					n.L.Unlock()
				}
			})
			if cancel {
				vsync.GoNamed("X", func() {
					vsync.PointHere("cancel")
					w.cancelled = true
					cancelFn()
				})
			}
			_ = cancelFn
			return w
		},
		Check: func(x *vsync.Execution, wd vsync.World) (string, *vsync.Verdict) {
			w := wd.(*nWorld)
			o := fmt.Sprintf("seen=%v ok=%v blocked=%d", w.seen, w.returned, len(x.BlockedAll))
			if len(x.Panics) > 0 {
				return o, &vsync.Verdict{Sig: "C16/N-panic", Desc: fmt.Sprint(x.Panics)}
			}
			if x.Deadlock {
				return o, &vsync.Verdict{Sig: "C16/N-waiter-stuck", Desc: fmt.Sprintf("value reached %d, blocked: %v", w.val, x.Blocked)}
			}
			for i := range w.seen {
				if w.returned[i] && w.seen[i] != w.target {
					return o, &vsync.Verdict{Sig: "C16/N-early-return", Desc: fmt.Sprintf("waiter %d returned with value %d", i, w.seen[i])}
				}
				if !w.returned[i] && (!w.cancelled || (cancelFirstOnly && i > 0)) {
					return o, &vsync.Verdict{Sig: "C16/N-spurious-false", Desc: fmt.Sprintf("Wait of waiter %d returned false although its context was not cancelled", i)}
				}
			}
			return o, nil
		},
	}
}

func TestVerifC16N(t *testing.T) {
	rep := vrep.New("C16")
	defer func() {
		if err := rep.Finish(); err != nil {
			t.Fatal(err)
		}
		if rep.NViolations() > 0 {
			t.Fail()
		}
	}()
	var scs []vsync.Scenario
	for _, wn := range []int{1, 2} {
		for _, up := range []int{1, 2} {
			for _, c := range []bool{false, true} {
				scs = append(scs, nScenario(wn, up, c, false))
			}
		}
	}
	scs = append(scs, nScenario(2, 1, true, true), nScenario(2, 2, true, true))
	bound, budget := 3, 3*time.Minute
	if vrep.Thorough() {
		bound, budget = 5, 15*time.Minute
		scs = append(scs, nScenario(3, 1, true, true))
	}
	vsync.ExploreScenarios(rep, "N", scs, bound, 400, budget)
}
