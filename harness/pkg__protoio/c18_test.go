//go:build verif

package protoio

import (
	"bytes"
	"encoding/binary"
	"fmt"
	"io"
	"strings"
	"testing"

	"google.golang.org/protobuf/proto"
	"google.golang.org/protobuf/types/known/anypb"
	"google.golang.org/protobuf/types/known/emptypb"
	"google.golang.org/protobuf/types/known/wrapperspb"

	"berty.tech/weshnet/v2/internal/zzverif/vrep"
)

// scriptReader hands out the stream in chunks chosen by the explorer; after the stream: EOF (or a given error).
type scriptReader struct {
	data   []byte
	chunks []int // sizes of successive reads; after the list is exhausted reads are "full"
	pos    int
	ci     int
	reads  int
}

func (s *scriptReader) Read(p []byte) (int, error) {
	s.reads++
	if s.pos >= len(s.data) {
		return 0, io.EOF
	}
	n := len(s.data) - s.pos
	if s.ci < len(s.chunks) {
		if s.chunks[s.ci] < n {
			n = s.chunks[s.ci]
		}
		s.ci++
	}
	if n > len(p) {
		n = len(p)
	}
	copy(p, s.data[s.pos:s.pos+n])
	s.pos += n
	return n, nil
}

// msgOfSize returns a message whose encoding has exactly n bytes (n = 0 or n >= 2).
func msgOfSize(n int) proto.Message {
	if n == 0 {
		return &anypb.Any{}
	}
	if n == 2 {
		return &wrapperspb.Int64Value{Value: 1}
	}
	for u := 0; u <= 3; u++ {
		for l := n; l >= 0; l-- {
			m := &anypb.Any{TypeUrl: strings.Repeat("u", u), Value: bytes.Repeat([]byte{0xAB}, l)}
			sz := proto.Size(m)
			if sz == n {
				return m
			}
			if sz < n {
				break
			}
		}
	}
	panic(fmt.Sprintf("no message of size %d", n))
}

type variant struct {
	name   string
	writer func(w io.Writer) WriteCloser
	reader func(r io.Reader, max int) ReadCloser
	bufLen func(r ReadCloser) int
}

func variants() []variant {
	return []variant{
		{"varint", func(w io.Writer) WriteCloser { return NewDelimitedWriter(w) }, func(r io.Reader, max int) ReadCloser { return NewDelimitedReader(r, max) },
			func(r ReadCloser) int { return cap(r.(*varintReader).buf) }},
		{"uint32be", func(w io.Writer) WriteCloser { return NewUint32DelimitedWriter(w, binary.BigEndian) }, func(r io.Reader, max int) ReadCloser { return NewUint32DelimitedReader(r, binary.BigEndian, max) },
			func(r ReadCloser) int { return cap(r.(*uint32Reader).buf) }},
		{"uint32le", func(w io.Writer) WriteCloser { return NewUint32DelimitedWriter(w, binary.LittleEndian) }, func(r io.Reader, max int) ReadCloser { return NewUint32DelimitedReader(r, binary.LittleEndian, max) },
			func(r ReadCloser) int { return cap(r.(*uint32Reader).buf) }},
	}
}

type c18Case struct {
	Variant string `json:"variant"`
	Limit   int    `json:"limit"`
	Sizes   []int  `json:"sizes"`
	Chunks  []int  `json:"chunks"`
	Cut     int    `json:"cut"`
	Input   string `json:"input_hex,omitempty"`
}

var readAllCalls int

// readAll reads frames until an error; returns the frames, the error and the largest buffer held.
func readAll(v variant, data []byte, chunks []int, limit int, max int) (frames [][]byte, err error, maxBuf int, panicked interface{}) {
	defer func() {
		if r := recover(); r != nil {
			panicked = r
		}
	}()
	sr := &scriptReader{data: data, chunks: chunks}
	rd := v.reader(sr, limit)
	// a receive loop usually reads every frame into the same message value: even executions reuse one destination,
	// odd ones take a fresh one per frame (what was read must not depend on it)
	reuse := &emptypb.Empty{}
	readAllCalls++
	for i := 0; i < max; i++ {
		// every field is unknown to Empty and therefore preserved byte for byte: re-marshalling gives the frame body
		m := &emptypb.Empty{}
		if readAllCalls%2 == 0 {
			m = reuse
		}
		e := rd.ReadMsg(m)
		if b := v.bufLen(rd); b > maxBuf {
			maxBuf = b
		}
		if e != nil {
			return frames, e, maxBuf, nil
		}
		out, _ := proto.Marshal(m)
		frames = append(frames, out)
	}
	return frames, nil, maxBuf, nil
}

func TestVerifC18(t *testing.T) {
	rep := vrep.New("C18")
	defer func() {
		if err := rep.Finish(); err != nil {
			t.Fatal(err)
		}
		if rep.NViolations() > 0 {
			t.Fail()
		}
	}()
	thorough := vrep.Thorough()
	c18Writers(rep)
	for _, v := range variants() {
		limits := []int{8, 130}
		if thorough {
			limits = append(limits, 5000) // frames around the 4096-byte buffer of the buffered reader underneath
		}
		for _, limit := range limits {
			sizes := []int{0, 2, 3, limit - 1, limit, limit + 1}
			if limit > 128 {
				sizes = append(sizes, 127, 128)
			}
			if limit > 4096 {
				sizes = []int{0, 3, 4090, 4093, 4094, 4095, 4096, 4097, limit - 1, limit, limit + 1}
			}
			var seqs [][]int
			var rec func(cur []int)
			maxLen := 2
			if (thorough && limit < 4096) || limit == 8 {
				maxLen = 3
			}
			rec = func(cur []int) {
				if len(cur) > 0 {
					seqs = append(seqs, append([]int{}, cur...))
				}
				if len(cur) == maxLen {
					return
				}
				for _, s := range sizes {
					rec(append(cur, s))
				}
			}
			rec(nil)
			for _, seq := range seqs {
				// write with the real writer
				var buf bytes.Buffer
				w := v.writer(&buf)
				var bodies [][]byte
				for _, s := range seq {
					m := msgOfSize(s)
					b, _ := proto.Marshal(m)
					bodies = append(bodies, b)
					if err := w.WriteMsg(m); err != nil {
						rep.Violation("C18/write-error", err.Error(), c18Case{Variant: v.name, Limit: limit, Sizes: seq})
					}
				}
				stream := buf.Bytes()
				// expected: frames up to (excluding) the first over-limit one, then an error
				good := len(seq)
				for i, s := range seq {
					if s > limit {
						good = i
						break
					}
				}
				check := func(kind string, chunks []int, data []byte, cut int) {
					frames, err, maxBuf, pan := readAll(v, data, chunks, limit, len(seq)+1)
					c := c18Case{Variant: v.name, Limit: limit, Sizes: seq, Chunks: chunks, Cut: cut}
					if pan != nil {
						rep.Violation("C18/panic", fmt.Sprint(pan), c)
						return
					}
					if maxBuf > limit {
						rep.Violation("C18/allocation-beyond-limit", fmt.Sprintf("reader holds a %d-byte buffer with limit %d (sizes %v)", maxBuf, limit, seq), c)
					}
					// how many complete frames does data contain (before the first over-limit one)?
					want := 0
					off := 0
					full := 0
					for i := range seq {
						hl := len(stream) // header length
						_ = hl
						flen := frameLen(v.name, bodies[i])
						if off+flen <= len(data) {
							full++
							off += flen
						} else {
							break
						}
					}
					want = full
					if want > good {
						want = good
					}
					cls := fmt.Sprintf("%s/limit%d/%s/frames=%d/err=%v", v.name, limit, kind, len(frames), errName(err))
					rep.Eval(cls)
					if len(frames) != want {
						rep.Violation("C18/frame-count", fmt.Sprintf("%s limit=%d sizes=%v chunks=%v cut=%d: read %d frames, expected %d (err=%v)", v.name, limit, seq, chunks, cut, len(frames), want, err), c)
						return
					}
					for i := range frames {
						if !bytes.Equal(frames[i], bodies[i]) {
							rep.Violation("C18/frame-corrupted", fmt.Sprintf("%s limit=%d sizes=%v chunks=%v: frame %d differs", v.name, limit, seq, chunks, i), c)
							return
						}
					}
					if err == nil {
						rep.Violation("C18/no-error", fmt.Sprintf("%s limit=%d sizes=%v chunks=%v cut=%d: no error after the last frame", v.name, limit, seq, chunks, cut), c)
					}
				}
				// every chunking for small streams; <= 2 deviations from "full read" for longer ones
				if len(stream) <= 14 && len(stream) > 0 {
					n := len(stream)
					for mask := 0; mask < 1<<(n-1); mask++ {
						var chunks []int
						run := 1
						for i := 0; i < n-1; i++ {
							if mask&(1<<i) != 0 {
								chunks = append(chunks, run)
								run = 1
							} else {
								run++
							}
						}
						chunks = append(chunks, run)
						check("all-chunkings", chunks, stream, -1)
					}
				} else {
					check("full", nil, stream, -1)
					// one or two short reads (1..3 bytes) at any read position among the first 6 reads
					for p1 := 0; p1 < 6; p1++ {
						for s1 := 1; s1 <= 3; s1++ {
							ch := make([]int, p1+1)
							for i := range ch {
								ch[i] = 1 << 30
							}
							ch[p1] = s1
							check("one-short-read", ch, stream, -1)
							if thorough {
								for p2 := p1 + 1; p2 < 6; p2++ {
									for s2 := 1; s2 <= 3; s2++ {
										ch2 := make([]int, p2+1)
										for i := range ch2 {
											ch2[i] = 1 << 30
										}
										ch2[p1], ch2[p2] = s1, s2
										check("two-short-reads", ch2, stream, -1)
									}
								}
							}
						}
					}
					// byte-by-byte
					one := make([]int, len(stream))
					for i := range one {
						one[i] = 1
					}
					check("byte-by-byte", one, stream, -1)
				}
				// truncation at every byte offset
				if len(seq) <= 2 || thorough {
					for cut := 0; cut < len(stream); cut++ {
						check("truncated", nil, stream[:cut], cut)
					}
				}
			}
			rep.Sample(map[string]interface{}{"variant": v.name, "limit": limit, "frame_sizes": sizes, "sequences": len(seqs)})
		}
		// malformed lengths and arbitrary bytes
		var inputs [][]byte
		inputs = append(inputs, nil)
		for a := 0; a < 256; a++ {
			inputs = append(inputs, []byte{byte(a)})
			for b := 0; b < 256; b++ {
				inputs = append(inputs, []byte{byte(a), byte(b)})
			}
		}
		inputs = append(inputs,
			bytes.Repeat([]byte{0xff}, 9), bytes.Repeat([]byte{0xff}, 10), bytes.Repeat([]byte{0xff}, 11), bytes.Repeat([]byte{0x80}, 12),
			append(bytes.Repeat([]byte{0xff}, 9), 0x01), append(bytes.Repeat([]byte{0xff}, 9), 0x7f), append(bytes.Repeat([]byte{0x80}, 9), 0x02),
		)
		for _, l := range []uint32{9, 131, 1 << 31, 1<<32 - 1, 1 << 24} {
			be, le := make([]byte, 4), make([]byte, 4)
			binary.BigEndian.PutUint32(be, l)
			binary.LittleEndian.PutUint32(le, l)
			inputs = append(inputs, be, le, append(be, 1, 2, 3), append(le, 1, 2, 3))
			vb := make([]byte, 10)
			n := binary.PutUvarint(vb, uint64(l))
			inputs = append(inputs, vb[:n], append(vb[:n:n], 1, 2, 3))
		}
		for _, limit := range []int{8, 130} {
			for _, in := range inputs {
				frames, err, maxBuf, pan := readAll(v, in, nil, limit, 4)
				c := c18Case{Variant: v.name, Limit: limit, Input: fmt.Sprintf("%x", in)}
				rep.Eval(fmt.Sprintf("%s/limit%d/arbitrary/frames=%d/err=%s", v.name, limit, len(frames), errName(err)))
				if pan != nil {
					rep.Violation("C18/panic", fmt.Sprintf("input %x: %v", in, pan), c)
				}
				if maxBuf > limit {
					rep.Violation("C18/allocation-beyond-limit", fmt.Sprintf("input %x: buffer %d > limit %d", in, maxBuf, limit), c)
				}
				if err == nil {
					rep.Violation("C18/no-error", fmt.Sprintf("input %x: 4 frames read from %d bytes without error", in, len(in)), c)
				}
			}
		}
		rep.Sample(map[string]interface{}{"variant": v.name, "arbitrary_inputs": len(inputs), "note": "all byte strings of length <= 2 plus malformed length prefixes"})
	}
}

func frameLen(variant string, body []byte) int {
	if variant == "varint" {
		b := make([]byte, 10)
		return binary.PutUvarint(b, uint64(len(body))) + len(body)
	}
	return 4 + len(body)
}

func errName(err error) string {
	switch err {
	case nil:
		return "nil"
	case io.EOF:
		return "EOF"
	case io.ErrUnexpectedEOF:
		return "UnexpectedEOF"
	case io.ErrShortBuffer:
		return "ShortBuffer"
	}
	s := err.Error()
	if len(s) > 24 {
		s = s[:24]
	}
	return s
}

// fastMsg is a message that offers MarshalTo and Size, which makes the writers take their buffer-reusing path
// (the messages generated for this project do not; code linked against the package may).
type fastMsg struct{ *anypb.Any }

func (f fastMsg) Size() int { return proto.Size(f.Any) }
func (f fastMsg) MarshalTo(b []byte) (int, error) {
	out, err := proto.MarshalOptions{}.MarshalAppend(b[:0], f.Any)
	if err != nil {
		return 0, err
	}
	if len(out) > len(b) {
		return 0, fmt.Errorf("destination of %d bytes for a message of %d bytes: short buffer", len(b), len(out))
	}
	return len(out), nil
}

// c18Writers: what one writer does with a sequence of messages of different sizes (its buffer is reused and grows):
// base, base+delta, base for every base around the prefix-length boundaries and every small delta, for plain messages
// and for messages that offer MarshalTo/Size.
func c18Writers(rep *vrep.Report) {
	bases := []int{0, 3, 100, 117, 118, 119, 120, 126, 127, 128, 129, 200, 16372, 16383, 16384, 16385}
	for _, v := range variants() {
		for _, fast := range []bool{false, true} {
			for _, base := range bases {
				for delta := -4; delta <= 12; delta++ {
					second := base + delta
					if second < 0 || second == 1 || base == 1 {
						continue
					}
					sizes := []int{base, second, base}
					var buf bytes.Buffer
					w := v.writer(&buf)
					var bodies [][]byte
					var werr interface{}
					func() {
						defer func() {
							if r := recover(); r != nil {
								werr = fmt.Sprintf("PANIC %v", r)
							}
						}()
						for _, s := range sizes {
							m := msgOfSize(s)
							b, _ := proto.Marshal(m)
							bodies = append(bodies, b)
							var msg proto.Message = m
							if fast {
								a, ok := m.(*anypb.Any)
								if !ok {
									a = &anypb.Any{}
									must18(proto.Unmarshal(b, a))
								}
								msg = fastMsg{a}
							}
							if err := w.WriteMsg(msg); err != nil {
								werr = err
								return
							}
						}
					}()
					c := c18Case{Variant: v.name, Limit: 1 << 20, Sizes: sizes}
					rep.Eval(fmt.Sprintf("writer/%s/fast=%v/write-ok=%v", v.name, fast, werr == nil))
					if werr != nil {
						rep.Violation("C18/write-error", fmt.Sprintf("%s writer (MarshalTo path=%v), message sizes %v: %v", v.name, fast, sizes, werr), c)
						continue
					}
					frames, err, _, pan := readAll(v, buf.Bytes(), nil, 1<<20, len(sizes)+1)
					ok := pan == nil && len(frames) == len(sizes) && err != nil
					if ok {
						for i := range frames {
							if !bytes.Equal(frames[i], bodies[i]) {
								ok = false
							}
						}
					}
					if !ok {
						rep.Violation("C18/writer-round-trip", fmt.Sprintf("%s writer (MarshalTo path=%v), message sizes %v: read back %d frames (err=%v panic=%v), contents equal=%v", v.name, fast, sizes, len(frames), err, pan, ok), c)
					}
				}
			}
		}
	}
	rep.Sample(map[string]interface{}{"part": "writers: buffer reuse across sizes", "bases": bases, "deltas": "-4..12", "message_kinds": []string{"plain", "with MarshalTo/Size"}})
}

func must18(err error) {
	if err != nil {
		panic(err)
	}
}
