//go:build verif

package cm

import (
	"context"
	"fmt"
	"sort"
	"strings"
	"testing"
	"time"

	peer "github.com/libp2p/go-libp2p/core/peer"

	"berty.tech/weshnet/v2/internal/zzverif/vrep"
	"berty.tech/weshnet/v2/internal/zzverif/vsync"
)

// This package is the real /repo/connectedness_manager.go (rewritten onto the scheduler shims, package clause
// renamed) compiled on its own, so the harness does not need the whole root package.

type cmOp struct {
	kind string // assoc | update
	peer peer.ID
	st   ConnectednessType
}

func (o cmOp) String() string {
	if o.kind == "assoc" {
		return "assoc(" + string(o.peer) + ")"
	}
	return fmt.Sprintf("update(%s,%d)", string(o.peer), o.st)
}

const g = "group-1"

// view is the tracked state of group g: status per associated peer.
type view map[peer.ID]ConnectednessType

func (v view) String() string {
	var ks []string
	for k, s := range v {
		ks = append(ks, fmt.Sprintf("%s=%d", string(k), s))
	}
	sort.Strings(ks)
	return "{" + strings.Join(ks, ",") + "}"
}

// stateSeq computes the updater's atomic state sequence for group g.
func stateSeq(ops []cmOp) []view {
	status := map[peer.ID]ConnectednessType{}
	assoc := map[peer.ID]bool{}
	snap := func() view {
		v := view{}
		for p := range assoc {
			v[p] = status[p]
		}
		return v
	}
	out := []view{snap()}
	for _, o := range ops {
		if o.kind == "assoc" {
			assoc[o.peer] = true
		} else {
			status[o.peer] = o.st
		}
		out = append(out, snap())
	}
	return out
}

type cmRet struct {
	updated []peer.ID
	ok      bool
	after   view
	before  view
}

type cmWorld struct {
	m         *ConnectednessManager
	rets      [][]cmRet
	done      []bool
	cancelled bool
	seq       []view
}

func cmScenario(waiters int, ops []cmOp, cancel bool) vsync.Scenario {
	return cmScenarioPre(waiters, nil, ops, cancel)
}

// cmScenarioPre: peers in pre are associated (and known) before any thread starts.
func cmScenarioPre(waiters int, pre []peer.ID, ops []cmOp, cancel bool) vsync.Scenario {
	var names []string
	for _, o := range ops {
		names = append(names, o.String())
	}
	name := fmt.Sprintf("waiters=%d pre=%v ops=[%s] cancel=%v", waiters, pre, strings.Join(names, " "), cancel)
	var preOps []cmOp
	for _, p := range pre {
		preOps = append(preOps, cmOp{"assoc", p, 0})
	}
	seq := stateSeq(append(preOps, ops...))[len(preOps):]
	final := seq[len(seq)-1]
	return vsync.Scenario{
		Name: name,
		Setup: func(s *vsync.Sched) vsync.World {
			w := &cmWorld{m: NewConnectednessManager(), rets: make([][]cmRet, waiters), done: make([]bool, waiters), seq: seq}
			ctx, cancelFn := context.WithCancel(context.Background())
			for _, p := range pre {
				w.m.AssociatePeer(g, p)
			}
			for i := 0; i < waiters; i++ {
				i := i
				th := vsync.GoNamed(fmt.Sprintf("W%d", i), func() {
					current := PeersConnectedness{}
					for {
						if view(current).String() == final.String() {
							break // seen the final state
						}
						before := view{}
						for k, v := range current {
							before[k] = v
						}
						updated, ok := w.m.WaitForConnectednessChange(ctx, g, current)
						after := view{}
						for k, v := range current {
							after[k] = v
						}
						w.rets[i] = append(w.rets[i], cmRet{updated: updated, ok: ok, after: after, before: before})
						if !ok {
							break
						}
					}
					w.done[i] = true
				})
				_ = th
			}
			vsync.GoNamed("U", func() {
				for _, o := range ops {
					if o.kind == "assoc" {
						w.m.AssociatePeer(g, o.peer)
					} else {
						w.m.UpdateState(o.peer, o.st)
					}
				}
			})
			if cancel {
				vsync.GoNamed("X", func() {
					vsync.PointHere("cancel")
					w.cancelled = true
					cancelFn()
				})
			}
			_ = cancelFn
			return w
		},
		Check: func(x *vsync.Execution, wd vsync.World) (string, *vsync.Verdict) {
			w := wd.(*cmWorld)
			var sb strings.Builder
			for i, rs := range w.rets {
				fmt.Fprintf(&sb, "W%d:", i)
				for _, r := range rs {
					fmt.Fprintf(&sb, "%v/%v ", r.after, r.ok)
				}
			}
			fmt.Fprintf(&sb, "blocked=%d", len(x.BlockedAll))
			o := sb.String()
			if len(x.Panics) > 0 {
				return o, &vsync.Verdict{Sig: "C16/CM-panic", Desc: fmt.Sprint(x.Panics)}
			}
			if x.Horizon {
				return o, &vsync.Verdict{Sig: "C16/CM-horizon", Desc: "step horizon exceeded"}
			}
			uBlocked := false
			for _, b := range x.BlockedAll {
				if strings.HasPrefix(b, "U ") {
					uBlocked = true
				}
			}
			if uBlocked {
				return o, &vsync.Verdict{Sig: "C16/CM-deadlock", Desc: fmt.Sprintf("the updater can never finish: %v", x.BlockedAll)}
			}
			for i, rs := range w.rets {
				idx := 0 // position in the updater's state sequence of the waiter's previous view
				for _, r := range rs {
					if !r.ok {
						if !w.cancelled {
							return o, &vsync.Verdict{Sig: "C16/CM-spurious-false", Desc: "wait returned false without cancellation"}
						}
						continue
					}
					if len(r.updated) == 0 {
						return o, &vsync.Verdict{Sig: "C16/CM-empty-update", Desc: fmt.Sprintf("waiter %d returned ok with no updated peer", i)}
					}
					// the new view must be a state of the updater's sequence at or after the previous view
					found := -1
					for k := idx; k < len(w.seq); k++ {
						if w.seq[k].String() == r.after.String() {
							found = k
							break
						}
					}
					if found < 0 {
						return o, &vsync.Verdict{Sig: "C16/CM-inconsistent-view", Desc: fmt.Sprintf("waiter %d view %v is not a state of the updater's sequence %v at or after position %d", i, r.after, w.seq, idx)}
					}
					idx = found
					// updated == exactly the peers whose status differs between the previous and the new view
					want := map[peer.ID]bool{}
					for p, s := range r.after {
						if ps, ok := r.before[p]; !ok || ps != s {
							want[p] = true
						}
					}
					got := map[peer.ID]bool{}
					for _, p := range r.updated {
						got[p] = true
					}
					if len(got) != len(want) || len(got) != len(r.updated) {
						return o, &vsync.Verdict{Sig: "C16/CM-wrong-updated-set", Desc: fmt.Sprintf("waiter %d: before %v after %v updated %v", i, r.before, r.after, r.updated)}
					}
					for p := range want {
						if !got[p] {
							return o, &vsync.Verdict{Sig: "C16/CM-wrong-updated-set", Desc: fmt.Sprintf("waiter %d: before %v after %v updated %v", i, r.before, r.after, r.updated)}
						}
					}
				}
				if !w.done[i] {
					// blocked waiter: legitimate only if it cannot learn anything new, i.e. its view is the final state.
					last := view{}
					if len(rs) > 0 {
						last = rs[len(rs)-1].after
					}
					if w.cancelled {
						return o, &vsync.Verdict{Sig: "C16/CM-cancel-ignored", Desc: fmt.Sprintf("waiter %d blocked after cancellation: %v", i, x.BlockedAll)}
					}
					return o, &vsync.Verdict{Sig: "C16/CM-missed-update", Desc: fmt.Sprintf("waiter %d last saw %v, the tracked state is %v, and it is blocked for ever: %v", i, last, w.seq[len(w.seq)-1], x.BlockedAll)}
				}
			}
			return o, nil
		},
	}
}

// pair scenarios: every pair of public methods as two free threads (a lock-order inversion is a reachable deadlock)
func cmPairScenario(a, b string) vsync.Scenario {
	return vsync.Scenario{
		Name: "pair " + a + " || " + b,
		Setup: func(s *vsync.Sched) vsync.World {
			m := NewConnectednessManager()
			m.AssociatePeer(g, "p0")
			ctx, cancelFn := context.WithCancel(context.Background())
			run := func(which string, tag string) func() {
				return func() {
					switch which {
					case "assoc":
						m.AssociatePeer(g, peer.ID("p"+tag))
					case "update":
						m.UpdateState("p0", ConnectednessTypeConnected)
					case "wait":
						cur := PeersConnectedness{}
						m.WaitForConnectednessChange(ctx, g, cur) // p0 is there: returns at once
						m.WaitForConnectednessChange(ctx, g, cur) // may block until the other thread changes something
					}
				}
			}
			vsync.GoNamed("A", run(a, "1"))
			vsync.GoNamed("B", run(b, "2"))
			vsync.GoNamed("X", func() {
				// cancellation comes last: by then A and B must have been able to run to their blocking points
				vsync.PointHere("cancel")
				cancelFn()
			})
			return m
		},
		Check: func(x *vsync.Execution, wd vsync.World) (string, *vsync.Verdict) {
			o := fmt.Sprintf("blocked=%d", len(x.BlockedAll))
			if len(x.Panics) > 0 {
				return o, &vsync.Verdict{Sig: "C16/CM-panic", Desc: fmt.Sprint(x.Panics)}
			}
			if x.Deadlock {
				return o, &vsync.Verdict{Sig: "C16/CM-deadlock", Desc: fmt.Sprintf("pair %s || %s: %v", a, b, x.BlockedAll)}
			}
			return o, nil
		},
	}
}

func TestVerifC16CM(t *testing.T) {
	rep := vrep.New("C16")
	defer func() {
		if err := rep.Finish(); err != nil {
			t.Fatal(err)
		}
		if rep.NViolations() > 0 {
			t.Fail()
		}
	}()
	alphabet := []cmOp{
		{"assoc", "p1", 0}, {"assoc", "p2", 0},
		{"update", "p1", ConnectednessTypeConnected}, {"update", "p1", ConnectednessTypeDisconnected}, {"update", "p2", ConnectednessTypeConnected},
	}
	maxLen := 2
	bound, budget := 2, 6*time.Minute
	if vrep.Thorough() {
		maxLen, bound, budget = 3, 3, 25*time.Minute
	}
	var seqs [][]cmOp
	var rec func(cur []cmOp)
	rec = func(cur []cmOp) {
		if len(cur) > 0 {
			seqs = append(seqs, append([]cmOp{}, cur...))
		}
		if len(cur) == maxLen {
			return
		}
		for _, o := range alphabet {
			rec(append(cur, o))
		}
	}
	rec(nil)
	var scs []vsync.Scenario
	for _, a := range []string{"assoc", "update", "wait"} {
		for _, b := range []string{"assoc", "update", "wait"} {
			scs = append(scs, cmPairScenario(a, b))
		}
	}
	for _, sq := range seqs {
		// only sequences that change the tracked state of the group are interesting for waiters
		ss := stateSeq(sq)
		if ss[len(ss)-1].String() == ss[0].String() {
			continue
		}
		scs = append(scs, cmScenario(1, sq, false))
		if len(sq) <= 2 {
			scs = append(scs, cmScenario(2, sq, false), cmScenario(1, sq, true))
		}
	}
	// status updates only, on peers associated beforehand (no association racing the waiters)
	C, D := ConnectednessTypeConnected, ConnectednessTypeDisconnected
	for _, sq := range [][]cmOp{
		{{"update", "p1", C}},
		{{"update", "p1", C}, {"update", "p2", C}},
		{{"update", "p1", C}, {"update", "p1", D}, {"update", "p1", ConnectednessTypeReconnecting}},
	} {
		scs = append(scs, cmScenarioPre(1, []peer.ID{"p1", "p2"}, sq, false), cmScenarioPre(2, []peer.ID{"p1", "p2"}, sq, false), cmScenarioPre(1, []peer.ID{"p1", "p2"}, sq, true))
	}
	vsync.ExploreScenarios(rep, "CM", scs, bound, 800, budget)
}
