//go:build verif

package secretstore

import (
	"fmt"
	"sort"
	"strings"
	"testing"
	"time"

	"github.com/libp2p/go-libp2p/core/crypto"

	"berty.tech/weshnet/v2/internal/zzverif/vrep"
	"berty.tech/weshnet/v2/internal/zzverif/vsync"
	"berty.tech/weshnet/v2/pkg/protocoltypes"
)

// C11, concurrent part: two tasks use a derived or lazily generated key of one store for the first time at the same
// moment (controlled scheduler: scheduling points at the package's mutex operations and at every keystore/datastore
// operation). Both must be handed the same key, and it is the key the store returns from then on.

type c11cScenario struct {
	Name  string
	Fresh bool     // the store has no account keys yet (they are generated on first use)
	Calls []string // one per task: member | device-and-member | contact | account | export
}

type c11cWorld struct {
	P    *party
	got  []map[string]string
	errs []string
}

func c11cRead(p *party, what string, X crypto.PubKey, G *protocoltypes.Group) (map[string]string, error) {
	out := map[string]string{}
	switch what {
	case "member":
		md, err := p.st.GetOwnMemberDeviceForGroup(G)
		if err != nil {
			return nil, err
		}
		out["member"], out["device"] = rawPub(md.Member()), rawPub(md.Device())
	case "contact":
		g, err := p.st.GetGroupForContact(X)
		if err != nil {
			return nil, err
		}
		out["contact"] = groupSummary(g)
	case "account":
		g, _, err := p.st.GetGroupForAccount()
		if err != nil {
			return nil, err
		}
		out["account"] = groupSummary(g)
	case "account-key":
		sk, err := p.st.GetAccountPrivateKey()
		if err != nil {
			return nil, err
		}
		out["account-key"] = rawPub(sk.GetPublic())
	case "proof-key":
		pk, err := p.st.GetAccountProofPublicKey()
		if err != nil {
			return nil, err
		}
		out["proof-key"] = rawPub(pk)
	}
	return out, nil
}

func c11cScen(seed int64, sc c11cScenario) vsync.Scenario {
	X := detKey(seed, "acct/B").GetPublic()
	G := detGroupMultiMember(seed, "G1")
	return vsync.Scenario{
		Name: sc.Name,
		Setup: func(s *vsync.Sched) vsync.World {
			w := &c11cWorld{}
			if sc.Fresh {
				ds := newMemDS(false)
				st, err := newSecretStore(ds, &NewSecretStoreOptions{PreComputedKeysCount: 2, PrecomputeOutOfStoreGroupRefsCount: 2})
				must(err)
				w.P = &party{name: "fresh", ds: ds, st: st, w: 2, n: 2}
			} else {
				w.P = newParty(seed, "A", "1", 2, 2, false)
			}
			w.got = make([]map[string]string, len(sc.Calls))
			w.P.ds.hook = func(op, key string) { vsync.PointHere("ds-" + op) }
			for i, c := range sc.Calls {
				i, c := i, c
				vsync.GoNamed(fmt.Sprintf("T%d", i), func() {
					v, err := c11cRead(w.P, c, X, G)
					if err != nil {
						w.errs = append(w.errs, fmt.Sprintf("T%d %s: %v", i, c, err))
						return
					}
					w.got[i] = v
				})
			}
			return w
		},
		Check: func(x *vsync.Execution, wd vsync.World) (string, *vsync.Verdict) {
			w := wd.(*c11cWorld)
			w.P.ds.hook = nil
			if len(x.Panics) > 0 {
				return "panic", &vsync.Verdict{Sig: "C11/panic", Desc: fmt.Sprint(x.Panics)}
			}
			if x.Deadlock {
				return "deadlock", &vsync.Verdict{Sig: "C11/deadlock", Desc: fmt.Sprint(x.BlockedAll)}
			}
			if len(w.errs) > 0 {
				return "error", &vsync.Verdict{Sig: "C11/concurrent-first-use-fails", Desc: strings.Join(w.errs, "; ")}
			}
			// what the store says now, sequentially, on a store re-opened on the same datastore
			now := map[string]string{}
			Q := w.P.cloneParty()
			for _, c := range []string{"member", "contact", "account", "account-key", "proof-key"} {
				v, err := c11cRead(Q, c, X, G)
				if err != nil {
					return "error", &vsync.Verdict{Sig: "C11/unusable-after-concurrent-first-use", Desc: c + ": " + err.Error()}
				}
				for k, val := range v {
					now[k] = val
				}
			}
			acctKeyOfGroup := strings.SplitN(now["account"], "/", 2)[0]
			_ = acctKeyOfGroup
			var o []string
			for i, g := range w.got {
				var ks []string
				for k := range g {
					ks = append(ks, k)
				}
				sort.Strings(ks)
				for _, k := range ks {
					same := g[k] == now[k]
					o = append(o, fmt.Sprintf("T%d:%s:same=%v", i, k, same))
					if !same {
						return strings.Join(o, " "), &vsync.Verdict{Sig: "C11/concurrent-first-use-hands-out-another-key", Desc: fmt.Sprintf("task %d (%s) was handed %s = %.16s..., the store now holds %.16s...: two first uses at the same time do not agree on the key", i, sc.Calls[i], k, g[k], now[k])}
					}
				}
			}
			return strings.Join(o, " "), nil
		},
	}
}

// c11cPairScen: two accounts in one process derive the contact group they share at the same moment, each on its own
// store (nothing of one store is visible to the other, so whatever they share lives in the packages below them). Both
// must obtain the same group, and the same again afterwards.
func c11cPairScen(seed int64) vsync.Scenario {
	type pw struct {
		A, B *party
		got  [2]string
		errs []string
	}
	return vsync.Scenario{
		Name: "two accounts derive their contact group at the same moment",
		Setup: func(s *vsync.Sched) vsync.World {
			w := &pw{A: newParty(seed, "A", "1", 2, 2, false), B: newParty(seed, "B", "1", 2, 2, false)}
			ka, kb := detKey(seed, "acct/A").GetPublic(), detKey(seed, "acct/B").GetPublic()
			w.A.ds.hook = func(op, key string) { vsync.PointHere("ds-" + op) }
			w.B.ds.hook = func(op, key string) { vsync.PointHere("ds-" + op) }
			for i, c := range []struct {
				p *party
				x crypto.PubKey
			}{{w.A, kb}, {w.B, ka}} {
				i, c := i, c
				vsync.GoNamed(fmt.Sprintf("T%d", i), func() {
					g, err := c.p.st.GetGroupForContact(c.x)
					if err != nil {
						w.errs = append(w.errs, err.Error())
						return
					}
					w.got[i] = groupSummary(g)
				})
			}
			return w
		},
		Check: func(x *vsync.Execution, wd vsync.World) (string, *vsync.Verdict) {
			w := wd.(*pw)
			w.A.ds.hook, w.B.ds.hook = nil, nil
			if len(x.Panics) > 0 {
				return "panic", &vsync.Verdict{Sig: "C11/panic", Desc: fmt.Sprint(x.Panics)}
			}
			if x.Deadlock {
				return "deadlock", &vsync.Verdict{Sig: "C11/deadlock", Desc: fmt.Sprint(x.BlockedAll)}
			}
			if len(w.errs) > 0 {
				return "error", &vsync.Verdict{Sig: "C11/concurrent-first-use-fails", Desc: strings.Join(w.errs, "; ")}
			}
			ka, kb := detKey(seed, "acct/A").GetPublic(), detKey(seed, "acct/B").GetPublic()
			ga, erra := w.A.cloneParty().st.GetGroupForContact(kb)
			gb, errb := w.B.cloneParty().st.GetGroupForContact(ka)
			if erra != nil || errb != nil {
				return "error", &vsync.Verdict{Sig: "C11/unusable-after-concurrent-first-use", Desc: fmt.Sprint(erra, errb)}
			}
			o := fmt.Sprintf("agree=%v stable=%v", w.got[0] == w.got[1], w.got[0] == groupSummary(ga) && w.got[1] == groupSummary(gb))
			if w.got[0] != w.got[1] || w.got[0] != groupSummary(ga) || w.got[1] != groupSummary(gb) {
				return o, &vsync.Verdict{Sig: "C11/contact-group-differs-between-the-two-sides", Desc: fmt.Sprintf("A derives %.24s..., B derives %.24s... (afterwards: %.24s... / %.24s...)", w.got[0], w.got[1], groupSummary(ga), groupSummary(gb))}
			}
			return o, nil
		},
	}
}

func TestVerifC11Conc(t *testing.T) {
	rep := vrep.New("C11")
	defer func() {
		if err := rep.Finish(); err != nil {
			t.Fatal(err)
		}
		if rep.NViolations() > 0 {
			t.Fail()
		}
	}()
	seed := vrep.Seed()
	scs := []c11cScenario{
		{"member || member", false, []string{"member", "member"}},
		{"contact || contact", false, []string{"contact", "contact"}},
		{"member || contact", false, []string{"member", "contact"}},
		{"fresh store: account || account-key", true, []string{"account", "account-key"}},
		{"fresh store: member || proof-key", true, []string{"member", "proof-key"}},
	}
	bound, budget := 2, 3*time.Minute
	if vrep.Thorough() {
		bound, budget = 3, 15*time.Minute
		scs = append(scs, c11cScenario{"member || member || member", false, []string{"member", "member", "member"}},
			c11cScenario{"fresh store: account || member || contact", true, []string{"account", "member", "contact"}})
	}
	var vs []vsync.Scenario
	for _, sc := range scs {
		vs = append(vs, c11cScen(seed, sc))
	}
	vs = append(vs, c11cPairScen(seed))
	vsync.ExploreScenarios(rep, "concurrent", vs, bound, 4000, budget)
}
