//go:build verif

package secretstore

import (
	"context"

	"fmt"
	"google.golang.org/protobuf/proto"
	"strings"
	"testing"
	"time"

	"berty.tech/weshnet/v2/internal/zzverif/vrep"
	"berty.tech/weshnet/v2/internal/zzverif/vsync"
	"berty.tech/weshnet/v2/pkg/protocoltypes"
)

// C02, concurrent part: envelopes of one sender device are opened by several tasks at the same time (the log path of
// a group and the push path share one secret store), under the controlled scheduler: scheduling points at every mutex
// operation of the package and at every datastore operation of the receiver. Whatever the interleaving, the receiver
// must end up in the state the reference ratchet describes: with n messages opened, every counter up to
// c + window + n is openable.

type c02cThread struct {
	Opens  []int // message numbers (1-based) opened in this order through the log path
	Reg    bool  // re-deliver the chain-key announcement instead
	Pushes []int // message numbers opened from their push payloads (C14)
}

type c02cScenario struct {
	Name    string
	Window  int
	Threads []c02cThread
	Prop    string // C02 (default) or C14: the property the verdicts are reported under
	// Unregistered: the receiver does not hold the sender's chain key at the start; one task registers it while
	// another already tries to open (an open that comes too early may fail and is retried afterwards)
	Unregistered bool
	OosN    int    // size parameter of the push reference window (default 2)
	Slide   int    // C14: after the concurrent phase message Slide goes through the log, then the pushes around it are probed
}

type c02cWorld struct {
	S, R   *party
	g      *protocoltypes.Group
	ann    []byte
	envs   [][]byte // envs[k-1] = message k
	res    []string
	bad    []string
	opened map[int]bool
	pushes [][]byte
}

func c02cScen(seed int64, sc c02cScenario) vsync.Scenario {
	const sealed = 7
	prop := sc.Prop
	if prop == "" {
		prop = "C02"
	}
	return vsync.Scenario{
		Name: sc.Name,
		Setup: func(s *vsync.Sched) vsync.World {
			w := &c02cWorld{opened: map[int]bool{}}
			w.S = newParty(seed, "A", "1", 2, 2, false)
			oosN := sc.OosN
			if oosN == 0 {
				oosN = 2
			}
			w.R = newParty(seed, "B", "r", sc.Window, oosN, false)
			w.g = detGroupMultiMember(seed, "G1")
			w.ann = w.S.announce(w.g, w.R.md(w.g).Member())
			if !sc.Unregistered {
				must(w.R.st.RegisterChainKey(context.Background(), w.g, w.S.md(w.g).Device(), w.ann))
			}
			for k := 1; k <= sealed; k++ {
				w.envs = append(w.envs, w.S.seal(w.g, []byte(fmt.Sprintf("payload-%d", k))))
			}
			if prop == "C14" {
				must(w.R.st.PutGroup(context.Background(), w.g))
				for k := 1; k <= sealed; k++ {
					env, headers, err := w.S.st.OpenEnvelopeHeaders(w.envs[k-1], w.g)
					must(err)
					oos, err := w.S.st.SealOutOfStoreMessageEnvelope(cidOf(w.envs[k-1]), env, headers, w.g)
					must(err)
					w.pushes = append(w.pushes, mustBytes(proto.Marshal(oos)))
				}
			}
			w.R.ds.hook = func(op, key string) { vsync.PointHere("ds-" + op) }
			for ti, th := range sc.Threads {
				ti, th := ti, th
				vsync.GoNamed(fmt.Sprintf("T%d", ti), func() {
					if th.Reg {
						err := w.R.st.RegisterChainKey(context.Background(), w.g, w.S.md(w.g).Device(), w.ann)
						w.res = append(w.res, fmt.Sprintf("T%d:reg=%v", ti, err == nil))
						if err != nil {
							w.bad = append(w.bad, fmt.Sprintf("re-delivered announcement refused: %v", err))
						}
						return
					}
					for _, k := range th.Pushes {
						r := w.R.pushOpen(w.pushes[k-1])
						w.res = append(w.res, fmt.Sprintf("T%d:push(%d)=%v", ti, k, r.ok))
						if !r.ok {
							w.bad = append(w.bad, fmt.Sprintf("push-open(%d) by task %d failed: %s", k, ti, r.err))
						} else if string(r.payload) != fmt.Sprintf("payload-%d", k) || r.counter != uint64(k) {
							w.bad = append(w.bad, fmt.Sprintf("push-open(%d) returned payload %q counter %d", k, r.payload, r.counter))
						}
					}
					for _, k := range th.Opens {
						r := w.R.logOpen(w.g, w.envs[k-1])
						w.res = append(w.res, fmt.Sprintf("T%d:open(%d)=%v", ti, k, r.ok))
						if !r.ok {
							if !sc.Unregistered {
								w.bad = append(w.bad, fmt.Sprintf("open(%d) by task %d failed: %s", k, ti, r.err))
							}
						} else {
							w.opened[k] = true
							if string(r.payload) != fmt.Sprintf("payload-%d", k) || r.counter != uint64(k) {
								w.bad = append(w.bad, fmt.Sprintf("open(%d) returned payload %q counter %d", k, r.payload, r.counter))
							}
						}
					}
				})
			}
			return w
		},
		Check: func(x *vsync.Execution, wd vsync.World) (string, *vsync.Verdict) {
			w := wd.(*c02cWorld)
			w.R.ds.hook = nil
			o := strings.Join(w.res, " ")
			if len(x.Panics) > 0 {
				return "panic", &vsync.Verdict{Sig: prop + "/panic", Desc: fmt.Sprint(x.Panics)}
			}
			if x.Deadlock {
				return "deadlock", &vsync.Verdict{Sig: prop + "/deadlock", Desc: fmt.Sprint(x.BlockedAll)}
			}
			// every concurrent open was within the window when it was issued (scenarios are built that way)
			if len(w.bad) > 0 {
				return o, &vsync.Verdict{Sig: prop + "/concurrent-open-failed", Desc: strings.Join(w.bad, "; ")}
			}
			if prop == "C14" && sc.Slide > 0 {
				// the reference window after the concurrent slides is what the next slide builds on: message Slide goes
				// through the log now (sequentially); every message around it that the log path can open at this moment
				// and that lies in the reference window [Slide-N, Slide+N) must open from its push payload
				m := sc.Slide
				r := w.R.logOpen(w.g, w.envs[m-1])
				if !r.ok {
					return o, &vsync.Verdict{Sig: "C14/not-openable-after-concurrent-opens", Desc: fmt.Sprintf("(%s) message %d is refused by the log path: %s", o, m, r.err)}
				}
				w.opened[m] = true
				for k := 1; k <= sealed; k++ {
					if k < m-sc.OosN || k >= m+sc.OosN {
						continue
					}
					if !w.R.onDS(w.R.ds.clone()).logOpen(w.g, w.envs[k-1]).ok {
						continue
					}
					pr := w.R.onDS(w.R.ds.clone()).pushOpen(w.pushes[k-1])
					if !pr.ok || string(pr.payload) != fmt.Sprintf("payload-%d", k) {
						return o, &vsync.Verdict{Sig: "C14/push-in-reference-window-refused-after-concurrent-slides", Desc: fmt.Sprintf("(%s) then message %d through the log: the push payload of message %d (openable through the log, inside the reference window [%d,%d) around the last counter seen) is refused: %s", o, m, k, m-sc.OosN, m+sc.OosN, pr.err)}
					}
				}
			}
			if prop == "C14" {
				// every message the log path has just delivered opens from its push payload, flagged as already received
				// (checked now: they are inside the reference window around the last delivered counter)
				for k := range w.opened {
					// on a clone: a push open slides the reference window, and one probe must not decide the next
					r := w.R.onDS(w.R.ds.clone()).pushOpen(w.pushes[k-1])
					if !r.ok || string(r.payload) != fmt.Sprintf("payload-%d", k) || !r.received {
						return o, &vsync.Verdict{Sig: "C14/push-of-received-message-after-concurrent-opens", Desc: fmt.Sprintf("(%s) push payload of message %d, which the log path has delivered: ok=%v received=%v payload=%q err=%s", o, k, r.ok, r.received, r.payload, r.err)}
					}
				}
			}
			// the reference ratchet: registered at 0, n distinct messages opened => every k <= window + n is openable,
			// opened ones re-open
			n := len(w.opened)
			for k := 1; k <= sc.Window+n && k <= sealed; k++ {
				r := w.R.logOpen(w.g, w.envs[k-1])
				if !r.ok {
					return o, &vsync.Verdict{Sig: prop + "/not-openable-after-concurrent-opens", Desc: fmt.Sprintf("window %d, %d distinct messages opened concurrently (%s): message %d <= %d is refused: %s", sc.Window, n, o, k, sc.Window+n, r.err)}
				}
				if string(r.payload) != fmt.Sprintf("payload-%d", k) {
					return o, &vsync.Verdict{Sig: prop + "/wrong-payload", Desc: fmt.Sprintf("message %d opens to %q", k, r.payload)}
				}
				if !w.opened[k] {
					n++ // a newly opened message slides the window by one
					w.opened[k] = true
				}
			}
			return o, nil
		},
	}
}

func TestVerifC02Conc(t *testing.T) {
	rep := vrep.New("C02")
	defer func() {
		if err := rep.Finish(); err != nil {
			t.Fatal(err)
		}
		if rep.NViolations() > 0 {
			t.Fail()
		}
	}()
	seed := vrep.Seed()
	scs := []c02cScenario{
		{"open(1) || open(2), window 2", 2, []c02cThread{{Opens: []int{1}}, {Opens: []int{2}}}, "", false, 0, 0},
		{"open(1) || open(1), window 1", 1, []c02cThread{{Opens: []int{1}}, {Opens: []int{1}}}, "", false, 0, 0},
		{"open(2) || open(1) open(3), window 2", 2, []c02cThread{{Opens: []int{2}}, {Opens: []int{1, 3}}}, "", false, 0, 0},
		{"open(1) || announcement re-delivered, window 1", 1, []c02cThread{{Opens: []int{1}}, {Reg: true}}, "", false, 0, 0},
		{"first registration || open(1), window 1", 1, []c02cThread{{Reg: true}, {Opens: []int{1}}}, "", true, 0, 0},
		{"first registration || open(1) open(2), window 2", 2, []c02cThread{{Reg: true}, {Opens: []int{1, 2}}}, "", true, 0, 0},
	}
	bound, budget := 2, 4*time.Minute
	if vrep.Thorough() {
		bound, budget = 3, 20*time.Minute
		scs = append(scs,
			c02cScenario{"open(1) || open(2) || open(3), window 3", 3, []c02cThread{{Opens: []int{1}}, {Opens: []int{2}}, {Opens: []int{3}}}, "", false, 0, 0},
			c02cScenario{"open(1) open(2) || open(2) open(1), window 2", 2, []c02cThread{{Opens: []int{1, 2}}, {Opens: []int{2, 1}}}, "", false, 0, 0},
		)
	}
	var vs []vsync.Scenario
	for _, sc := range scs {
		vs = append(vs, c02cScen(seed, sc))
	}
	vsync.ExploreScenarios(rep, "concurrent", vs, bound, 4000, budget)
}

// C14, concurrent part: the push path and the log path of one sender's messages run at the same time.
func TestVerifC14Conc(t *testing.T) {
	rep := vrep.New("C14")
	defer func() {
		if err := rep.Finish(); err != nil {
			t.Fatal(err)
		}
		if rep.NViolations() > 0 {
			t.Fail()
		}
	}()
	seed := vrep.Seed()
	scs := []c02cScenario{
		{Name: "log(1) || push(1), window 1", Window: 1, Threads: []c02cThread{{Opens: []int{1}}, {Pushes: []int{1}}}, Prop: "C14"},
		{Name: "log(1) || push(2), window 2", Window: 2, Threads: []c02cThread{{Opens: []int{1}}, {Pushes: []int{2}}}, Prop: "C14"},
		{Name: "push(1) || push(1), window 1", Window: 1, Threads: []c02cThread{{Pushes: []int{1}}, {Pushes: []int{1}}}, Prop: "C14"},
		// two slides of the reference window at the same moment (the log path at counter 1, the push path at counter 4),
		// then a third one that builds on what they left
		{Name: "log(1) || push(4), window 4, reference window 4, then log(5)", Window: 4, OosN: 4, Slide: 5, Threads: []c02cThread{{Opens: []int{1}}, {Pushes: []int{4}}}, Prop: "C14"},
	}
	bound, budget := 2, 4*time.Minute
	if vrep.Thorough() {
		bound, budget = 3, 20*time.Minute
		scs = append(scs, c02cScenario{Name: "log(1) log(2) || push(2) push(1), window 2", Window: 2, Threads: []c02cThread{{Opens: []int{1, 2}}, {Pushes: []int{2, 1}}}, Prop: "C14"})
	}
	var vs []vsync.Scenario
	for _, sc := range scs {
		vs = append(vs, c02cScen(seed, sc))
	}
	vsync.ExploreScenarios(rep, "concurrent", vs, bound, 5000, budget)
}
