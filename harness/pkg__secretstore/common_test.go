//go:build verif

package secretstore

import (
	"bytes"
	"context"
	"crypto/ed25519"
	"crypto/sha256"
	"encoding/binary"
	"encoding/hex"
	"fmt"
	"regexp"
	"sort"
	"strings"
	"sync"

	"github.com/ipfs/go-cid"
	"github.com/ipfs/go-datastore"
	dsq "github.com/ipfs/go-datastore/query"
	"github.com/libp2p/go-libp2p/core/crypto"
	mh "github.com/multiformats/go-multihash"
	"google.golang.org/protobuf/proto"

	"berty.tech/weshnet/v2/pkg/protocoltypes"
)

// memDS is a plain map datastore that can be cloned and dumped; optionally it supports batches
// (atomic commit, as badger does) and it can record every mutation (crash-point enumeration).
type memDS struct {
	mu      sync.Mutex
	m       map[string][]byte
	batched bool
	log     *[]dsMutation // shared mutation log when recording
	hook    func(op string, key string)
	onPut   func(key string, val []byte)
	// fail, when set, is consulted before every operation; a non-nil answer is returned as the operation's error
	// (a transient storage fault: nothing is read or written)
	fail func(op string, key string) error
}

type dsMutation struct {
	// one atomic mutation: a put, a delete, or a committed batch (several puts/deletes applied together)
	Ops []dsOp
}

type dsOp struct {
	Del bool
	Key string
	Val []byte
}

func newMemDS(batched bool) *memDS { return &memDS{m: map[string][]byte{}, batched: batched} }

func (d *memDS) clone() *memDS {
	d.mu.Lock()
	defer d.mu.Unlock()
	n := &memDS{m: make(map[string][]byte, len(d.m)), batched: d.batched}
	for k, v := range d.m {
		n.m[k] = append([]byte(nil), v...)
	}
	return n
}

func (d *memDS) dump() string {
	d.mu.Lock()
	defer d.mu.Unlock()
	keys := make([]string, 0, len(d.m))
	for k := range d.m {
		keys = append(keys, k)
	}
	sort.Strings(keys)
	var sb strings.Builder
	for _, k := range keys {
		sb.WriteString(k)
		sb.WriteByte('=')
		sb.WriteString(hex.EncodeToString(d.m[k]))
		sb.WriteByte('\n')
	}
	return sb.String()
}

func (d *memDS) dumpHash() string {
	h := sha256.Sum256([]byte(d.dump()))
	return hex.EncodeToString(h[:12])
}

func (d *memDS) record(m dsMutation) {
	if d.log != nil {
		*d.log = append(*d.log, m)
	}
}

func (d *memDS) applyMutation(m dsMutation) {
	for _, op := range m.Ops {
		if op.Del {
			delete(d.m, op.Key)
		} else {
			d.m[op.Key] = append([]byte(nil), op.Val...)
		}
	}
}

func (d *memDS) Get(ctx context.Context, key datastore.Key) ([]byte, error) {
	if d.fail != nil {
		if err := d.fail("get", key.String()); err != nil {
			return nil, err
		}
	}
	if d.hook != nil {
		d.hook("get", key.String())
	}
	d.mu.Lock()
	defer d.mu.Unlock()
	v, ok := d.m[key.String()]
	if !ok {
		return nil, datastore.ErrNotFound
	}
	return append([]byte(nil), v...), nil
}

func (d *memDS) Has(ctx context.Context, key datastore.Key) (bool, error) {
	if d.fail != nil {
		if err := d.fail("has", key.String()); err != nil {
			return false, err
		}
	}
	if d.hook != nil {
		d.hook("has", key.String())
	}
	d.mu.Lock()
	defer d.mu.Unlock()
	_, ok := d.m[key.String()]
	return ok, nil
}

func (d *memDS) GetSize(ctx context.Context, key datastore.Key) (int, error) {
	d.mu.Lock()
	defer d.mu.Unlock()
	v, ok := d.m[key.String()]
	if !ok {
		return -1, datastore.ErrNotFound
	}
	return len(v), nil
}

func (d *memDS) Query(ctx context.Context, q dsq.Query) (dsq.Results, error) {
	d.mu.Lock()
	defer d.mu.Unlock()
	re := make([]dsq.Entry, 0, len(d.m))
	for k, v := range d.m {
		e := dsq.Entry{Key: k, Size: len(v)}
		if !q.KeysOnly {
			e.Value = append([]byte(nil), v...)
		}
		re = append(re, e)
	}
	r := dsq.ResultsWithEntries(q, re)
	r = dsq.NaiveQueryApply(q, r)
	return r, nil
}

func (d *memDS) Put(ctx context.Context, key datastore.Key, value []byte) error {
	if d.fail != nil {
		if err := d.fail("put", key.String()); err != nil {
			return err
		}
	}
	if d.hook != nil {
		d.hook("put", key.String())
	}
	d.mu.Lock()
	defer d.mu.Unlock()
	m := dsMutation{Ops: []dsOp{{Key: key.String(), Val: append([]byte(nil), value...)}}}
	d.applyMutation(m)
	d.record(m)
	if d.onPut != nil {
		d.onPut(key.String(), value)
	}
	return nil
}

func (d *memDS) Delete(ctx context.Context, key datastore.Key) error {
	if d.fail != nil {
		if err := d.fail("delete", key.String()); err != nil {
			return err
		}
	}
	if d.hook != nil {
		d.hook("delete", key.String())
	}
	d.mu.Lock()
	defer d.mu.Unlock()
	m := dsMutation{Ops: []dsOp{{Del: true, Key: key.String()}}}
	d.applyMutation(m)
	d.record(m)
	return nil
}

func (d *memDS) Sync(ctx context.Context, prefix datastore.Key) error { return nil }
func (d *memDS) Close() error                                         { return nil }

type memBatch struct {
	d   *memDS
	ops []dsOp
}

func (d *memDS) Batch(ctx context.Context) (datastore.Batch, error) {
	if !d.batched {
		return nil, datastore.ErrBatchUnsupported
	}
	return &memBatch{d: d}, nil
}

func (b *memBatch) Put(ctx context.Context, key datastore.Key, value []byte) error {
	b.ops = append(b.ops, dsOp{Key: key.String(), Val: append([]byte(nil), value...)})
	return nil
}

func (b *memBatch) Delete(ctx context.Context, key datastore.Key) error {
	b.ops = append(b.ops, dsOp{Del: true, Key: key.String()})
	return nil
}

func (b *memBatch) Commit(ctx context.Context) error {
	if b.d.fail != nil {
		if err := b.d.fail("commit", fmt.Sprintf("%d ops", len(b.ops))); err != nil {
			return err
		}
	}
	if b.d.hook != nil {
		b.d.hook("commit", fmt.Sprintf("%d ops", len(b.ops)))
	}
	b.d.mu.Lock()
	defer b.d.mu.Unlock()
	m := dsMutation{Ops: b.ops}
	b.d.applyMutation(m)
	b.d.record(m)
	if b.d.onPut != nil {
		for _, op := range b.ops {
			if !op.Del {
				b.d.onPut(op.Key, op.Val)
			}
		}
	}
	b.ops = nil
	return nil
}

var _ datastore.Batching = (*memDS)(nil)

// detKey derives an Ed25519 private key from a label (deterministic key alphabet).
func detKey(seed int64, label string) crypto.PrivKey {
	h := sha256.Sum256([]byte(fmt.Sprintf("verif-key/%d/%s", seed, label)))
	std := ed25519.NewKeyFromSeed(h[:])
	sk, _, err := crypto.KeyPairFromStdKey(&std)
	if err != nil {
		panic(err)
	}
	return sk
}

// party is one device: a real secret store over a clonable datastore.
type party struct {
	name string
	ds   *memDS
	st   *secretStore
	w    int
	n    int
}

// newParty creates a device `dev` of account `acct` with deterministic account, proof and device keys.
func newParty(seed int64, acct, dev string, w, oosN int, batched bool) *party {
	ds := newMemDS(batched)
	st, err := newSecretStore(ds, &NewSecretStoreOptions{PreComputedKeysCount: w, PrecomputeOutOfStoreGroupRefsCount: oosN})
	if err != nil {
		panic(err)
	}
	must(st.deviceKeystore.keystore.Put(keyAccount, detKey(seed, "acct/"+acct)))
	must(st.deviceKeystore.keystore.Put(keyAccountProof, detKey(seed, "proof/"+acct)))
	must(st.deviceKeystore.keystore.Put(keyDevice, detKey(seed, "dev/"+acct+"/"+dev)))
	return &party{name: acct + dev, ds: ds, st: st, w: w, n: oosN}
}

// reopen builds a fresh secret store on a clone of the party's datastore (no in-memory state survives).
func (p *party) cloneParty() *party {
	ds := p.ds.clone()
	st, err := newSecretStore(ds, &NewSecretStoreOptions{PreComputedKeysCount: p.w, PrecomputeOutOfStoreGroupRefsCount: p.n})
	if err != nil {
		panic(err)
	}
	return &party{name: p.name, ds: ds, st: st, w: p.w, n: p.n}
}

func (p *party) onDS(ds *memDS) *party {
	st, err := newSecretStore(ds, &NewSecretStoreOptions{PreComputedKeysCount: p.w, PrecomputeOutOfStoreGroupRefsCount: p.n})
	if err != nil {
		panic(err)
	}
	return &party{name: p.name, ds: ds, st: st, w: p.w, n: p.n}
}

func (p *party) md(g *protocoltypes.Group) *ownMemberDevice {
	md, err := p.st.deviceKeystore.memberDeviceForGroup(g)
	if err != nil {
		panic(err)
	}
	return md
}

func (p *party) accountPub() crypto.PubKey {
	sk, err := p.st.GetAccountPrivateKey()
	if err != nil {
		panic(err)
	}
	return sk.GetPublic()
}

func must(err error) {
	if err != nil {
		panic(err)
	}
}

func mustBytes(b []byte, err error) []byte {
	if err != nil {
		panic(err)
	}
	return b
}

func groupPK(g *protocoltypes.Group) crypto.PubKey {
	pk, err := g.GetPubKey()
	if err != nil {
		panic(err)
	}
	return pk
}

// cidOf is what IPFS would do: the identifier is a digest of the content.
func cidOf(data []byte) cid.Cid {
	sum, err := mh.Sum(data, mh.SHA2_256, -1)
	if err != nil {
		panic(err)
	}
	return cid.NewCidV1(cid.Raw, sum)
}

// detGroupMultiMember builds a valid multi-member group from deterministic keys.
func detGroupMultiMember(seed int64, label string) *protocoltypes.Group {
	priv := detKey(seed, "group/"+label)
	signing := detKey(seed, "groupsecret/"+label)
	pubBytes := mustBytes(priv.GetPublic().Raw())
	raw := mustBytes(signing.Raw())
	secret := raw[:32]
	sig := mustBytes(priv.Sign(secret))
	g := &protocoltypes.Group{PublicKey: pubBytes, Secret: secret, SecretSig: sig, GroupType: protocoltypes.GroupType_GroupTypeMultiMember}
	lk, err := g.GetLinkKeyArray()
	must(err)
	g.LinkKeySig = mustBytes(priv.Sign(lk[:]))
	return g
}

// payloadAlphabet returns the payload alphabet: boundary sizes x fill patterns.
func payloadAlphabet(sizes []int) [][]byte {
	var out [][]byte
	for _, n := range sizes {
		for pat := 0; pat < 3; pat++ {
			b := make([]byte, n)
			for i := range b {
				switch pat {
				case 0:
					b[i] = 0
				case 1:
					b[i] = 0xff
				default:
					b[i] = byte(i*7 + 1)
				}
			}
			out = append(out, b)
			if n == 0 {
				break
			}
		}
	}
	return out
}

type openResult struct {
	ok      bool
	err     string
	payload []byte
	device  []byte
	counter uint64
}

func (r openResult) same(o openResult) bool {
	return r.ok == o.ok && bytes.Equal(r.payload, o.payload) && bytes.Equal(r.device, o.device) && r.counter == o.counter
}

// openVia opens sealed envelope bytes at party p for group g as the message store does:
// headers first, then payload, identified by the content id of the bytes.
func (p *party) open(g *protocoltypes.Group, data []byte) openResult {
	return p.openCID(g, data, cidOf(data))
}

func (p *party) openCID(g *protocoltypes.Group, data []byte, id cid.Cid) (res openResult) {
	defer func() {
		if r := recover(); r != nil {
			res = openResult{err: fmt.Sprintf("PANIC: %v", r)}
		}
	}()
	ctx := context.Background()
	env, headers, err := p.st.OpenEnvelopeHeaders(data, g)
	if err != nil {
		return openResult{err: "headers: " + errClass(err)}
	}
	msg, err := p.st.OpenEnvelopePayload(ctx, env, headers, groupPK(g), p.md(g).Device(), id)
	if err != nil {
		return openResult{err: "payload: " + errClass(err)}
	}
	return openResult{ok: true, payload: msg.Plaintext, device: headers.DevicePk, counter: headers.Counter}
}

// errClass abbreviates an error to its chain of error codes (stable class name).
var errCodeRe = regexp.MustCompile(`Err[A-Za-z]+\(#\d+\)|TODO\(#\d+\)`)

func errClass(err error) string {
	codes := errCodeRe.FindAllString(err.Error(), -1)
	if len(codes) == 0 {
		s := err.Error()
		if len(s) > 60 {
			s = s[:60]
		}
		return s
	}
	for i := range codes {
		codes[i] = codes[i][:strings.Index(codes[i], "(")]
	}
	return strings.Join(codes, ">")
}

func u64(x uint64) []byte {
	b := make([]byte, 8)
	binary.BigEndian.PutUint64(b, x)
	return b
}

// announce returns p's chain-key announcement for member `to` in group g (sealed), as of now.
func (p *party) announce(g *protocoltypes.Group, to crypto.PubKey) []byte {
	b, err := p.st.GetShareableChainKey(context.Background(), g, to)
	must(err)
	return b
}

func (p *party) seal(g *protocoltypes.Group, payload []byte) []byte {
	msg, err := protoMarshalEncrypted(payload)
	must(err)
	b, err := p.st.SealEnvelope(context.Background(), g, msg)
	must(err)
	return b
}

func protoMarshalEncrypted(payload []byte) ([]byte, error) {
	return proto.Marshal(&protocoltypes.EncryptedMessage{Plaintext: payload, ProtocolMetadata: &protocoltypes.ProtocolMetadata{}})
}
