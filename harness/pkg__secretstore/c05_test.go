//go:build verif

package secretstore

import (
	"bytes"
	"context"
	"fmt"
	"strings"
	"testing"

	"berty.tech/weshnet/v2/internal/zzverif/vrep"
	"berty.tech/weshnet/v2/pkg/protocoltypes"
)

type c05Group struct {
	name    string
	g       *protocoltypes.Group
	members []string // account names that are members
}

// TestVerifC05a: chain-key announcements are recipient-only, sender-bound, group-bound and exact.
func TestVerifC05a(t *testing.T) {
	rep := vrep.New("C05")
	defer func() {
		if err := rep.Finish(); err != nil {
			t.Fatal(err)
		}
		if rep.NViolations() > 0 {
			t.Fail()
		}
	}()
	c05a(rep)
}

func c05a(rep *vrep.Report) {
	seed := vrep.Seed()
	ctx := context.Background()
	accts := []string{"A", "B", "C"}
	devs := []string{"1", "2"}
	mk := func(a, d string) *party { return newParty(seed, a, d, 3, 2, false) }
	base := map[string]*party{}
	for _, a := range accts {
		for _, d := range devs {
			base[a+d] = mk(a, d)
		}
	}
	gAcc, _, err := base["A1"].st.GetGroupForAccount()
	must(err)
	gAB, err := base["A1"].st.GetGroupForContact(base["B1"].accountPub())
	must(err)
	gAC, err := base["A1"].st.GetGroupForContact(base["C1"].accountPub())
	must(err)
	groups := []c05Group{
		{"account(A)", gAcc, []string{"A"}},
		{"contact(A,B)", gAB, []string{"A", "B"}},
		{"contact(A,C)", gAC, []string{"A", "C"}},
		{"G1", detGroupMultiMember(seed, "G1"), accts},
		{"G2", detGroupMultiMember(seed, "G2"), accts},
	}
	isMember := func(g c05Group, a string) bool {
		for _, m := range g.members {
			if m == a {
				return true
			}
		}
		return false
	}
	maxK := 1
	if vrep.Thorough() {
		maxK = 3
	}
	type tri struct{ S, Rm, G string }
	nTriples := 0
	for gi, g := range groups {
		for _, sName := range []string{"A1", "A2", "B1", "B2", "C1"} {
			if !isMember(g, sName[:1]) {
				continue
			}
			for _, rAcct := range accts {
				if !isMember(g, rAcct) {
					continue
				}
				nTriples++
				// fresh sender per triple; announcement after k sends
				for k := 0; k <= maxK; k++ {
					S := mk(sName[:1], sName[1:])
					var envs [][]byte
					var pays [][]byte
					_ = S.announce(g.g, S.md(g.g).Member())
					for i := 1; i <= k+2; i++ {
						pl := []byte(fmt.Sprintf("m%d", i))
						if i <= k {
							pays = append(pays, pl)
							envs = append(envs, S.seal(g.g, pl))
						}
					}
					recipientMember := mk(rAcct, "1").md(g.g).Member()
					sealed := S.announce(g.g, recipientMember)
					for i := k + 1; i <= k+2; i++ {
						pl := []byte(fmt.Sprintf("m%d", i))
						pays = append(pays, pl)
						envs = append(envs, S.seal(g.g, pl))
					}
					wantCK, err := decryptDeviceChainKey(sealed, g.g, mk(rAcct, "1").md(g.g).member, S.md(g.g).Device())
					if err != nil {
						rep.Violation("C05/intended-recipient-cannot-open", fmt.Sprintf("sender %s -> member %s in %s after %d sends: %v", sName, rAcct, g.name, k, err), tri{sName, rAcct, g.name})
						continue
					}
					if wantCK.Counter != uint64(k) {
						rep.Violation("C05/wrong-counter", fmt.Sprintf("announcement taken after %d sends carries counter %d", k, wantCK.Counter), tri{sName, rAcct, g.name})
					}
					// every (claimed sender, opener, group) combination
					for _, og := range groups {
						for _, oName := range []string{"A1", "A2", "B1", "B2", "C1", "C2"} {
							for _, claimed := range []string{"A1", "A2", "B1", "B2", "C1"} {
								if !vrep.Thorough() && k > 0 && og.name != g.name && claimed != sName {
									continue // quick tier: with k>0 only single-coordinate deviations
								}
								O := mk(oName[:1], oName[1:])
								claimedDev := mk(claimed[:1], claimed[1:]).md(og.g).Device()
								openerMember := O.md(og.g).member
								ck, err := decryptDeviceChainKey(sealed, og.g, openerMember, claimedDev)
								// the three coordinates are the intended ones iff: same group, claimed device == real sender device (in that group),
								// opener's member key (in that group) == recipient member key
								intended := og.name == g.name && claimedDev.Equals(S.md(g.g).Device()) && O.md(og.g).Member().Equals(recipientMember)
								rep.Eval(fmt.Sprintf("combo/group-ok=%v/sender-ok=%v/recipient-ok=%v/opened=%v", og.name == g.name, claimedDev.Equals(S.md(og.g).Device()), O.md(og.g).Member().Equals(recipientMember), err == nil))
								if intended && err != nil {
									rep.Violation("C05/intended-open-fails", fmt.Sprintf("%s->%s in %s: intended opener %s cannot open: %v", sName, rAcct, g.name, oName, err), tri{sName, rAcct, g.name})
								}
								if !intended && err == nil {
									rep.Violation("C05/opened-with-wrong-coordinates", fmt.Sprintf("announcement %s->member %s in %s opened by %s claiming sender %s in %s", sName, rAcct, g.name, oName, claimed, og.name), map[string]string{"S": sName, "R": rAcct, "G": g.name, "opener": oName, "claimed": claimed, "group": og.name})
								}
								if err == nil && (ck.Counter != wantCK.Counter || !bytes.Equal(ck.ChainKey, wantCK.ChainKey)) {
									rep.Violation("C05/opens-to-other-chain-key", "opened to a different chain key", tri{sName, rAcct, g.name})
								}
							}
						}
					}
					// exactness through the public API: after registering, exactly messages k+1.. open
					Rcv := mk(rAcct, "2")
					if rAcct == sName[:1] && sName[1:] == "2" {
						Rcv = mk(rAcct, "1")
					}
					if err := Rcv.st.RegisterChainKey(ctx, g.g, S.md(g.g).Device(), sealed); err != nil {
						rep.Violation("C05/register-fails", fmt.Sprintf("%s->%s in %s: %v", sName, rAcct, g.name, err), tri{sName, rAcct, g.name})
						continue
					}
					for i, env := range envs {
						r := Rcv.cloneParty().open(g.g, env)
						want := i+1 > k
						rep.Eval(fmt.Sprintf("after-register/sealed-after-announcement=%v/opens=%v", want, r.ok))
						if want != r.ok {
							rep.Violation("C05/registered-range-wrong", fmt.Sprintf("%s->%s in %s announcement@%d: message %d opens=%v", sName, rAcct, g.name, k, i+1, r.ok), tri{sName, rAcct, g.name})
						}
						if r.ok && !bytes.Equal(r.payload, pays[i]) {
							rep.Violation("C05/wrong-content", "payload differs", tri{sName, rAcct, g.name})
						}
					}
					// every single-bit flip of the ciphertext is rejected (first triple of each group, or all when thorough)
					if k == 0 && (vrep.Thorough() || rAcct == g.members[0]) {
						for bit := 0; bit < len(sealed)*8; bit++ {
							mut := append([]byte(nil), sealed...)
							mut[bit/8] ^= 1 << uint(bit%8)
							_, err := decryptDeviceChainKey(mut, g.g, mk(rAcct, "1").md(g.g).member, S.md(g.g).Device())
							errR := mk(rAcct, "2").st.RegisterChainKey(ctx, g.g, S.md(g.g).Device(), mut)
							// the same altered announcement offered to a recipient that already holds the genuine one (Rcv)
							errK := Rcv.cloneParty().st.RegisterChainKey(ctx, g.g, S.md(g.g).Device(), mut)
							rep.Eval(fmt.Sprintf("bitflip/decrypt-rejected=%v/register-rejected=%v/after-genuine-rejected=%v", err != nil, errR != nil, errK != nil))
							if err != nil && errR != nil && errK == nil {
								rep.Violation("C05/altered-announcement-accepted-once-sender-is-known", fmt.Sprintf("%s->%s in %s bit %d: a recipient that has registered the genuine announcement accepts the altered one without error", sName, rAcct, g.name, bit), map[string]interface{}{"S": sName, "R": rAcct, "G": g.name, "bit": bit})
							}
							if err == nil || errR == nil {
								rep.Violation("C05/altered-announcement-accepted", fmt.Sprintf("%s->%s in %s bit %d", sName, rAcct, g.name, bit), map[string]interface{}{"S": sName, "R": rAcct, "G": g.name, "bit": bit})
							}
						}
						for _, cut := range []int{0, 1, len(sealed) - 1} {
							if _, err := decryptDeviceChainKey(sealed[:cut], g.g, mk(rAcct, "1").md(g.g).member, S.md(g.g).Device()); err == nil {
								rep.Violation("C05/truncated-announcement-accepted", fmt.Sprintf("cut=%d", cut), tri{sName, rAcct, g.name})
							}
							rep.Eval("truncated/rejected")
						}
					}
				}
				if gi == 0 || gi == 3 {
					rep.Sample(map[string]interface{}{"sender": sName, "recipient_member": rAcct, "group": g.name, "announcements_after_k_sends": maxK + 1})
				}
			}
		}
	}
	rep.Set("triples", int64(nTriples))
	c05aFaults(rep, seed)
}

// c05aFaults: an announcement produced while the store has a transient fault. For every datastore operation the
// sender's store performs while sealing an announcement (chain key present, two messages already sent), that one
// operation fails; the call must then either fail or still hand out the chain key the sender really uses.
func c05aFaults(rep *vrep.Report, seed int64) {
	ctx := context.Background()
	for _, batched := range []bool{false, true} {
		for _, kind := range []string{"multimember", "contact", "account"} {
			S := newParty(seed, "A", "1", 3, 2, batched)
			rAcct := "B"
			if kind == "account" {
				rAcct = "A"
			}
			R := newParty(seed, rAcct, "r", 3, 2, batched)
			var g *protocoltypes.Group
			switch kind {
			case "multimember":
				g = detGroupMultiMember(seed, "G1")
			case "contact":
				gg, err := S.st.GetGroupForContact(detKey(seed, "acct/B").GetPublic())
				must(err)
				g = gg
			default:
				gg, _, err := S.st.GetGroupForAccount()
				must(err)
				g = gg
			}
			_ = S.announce(g, R.md(g).Member())
			S.seal(g, []byte("m1"))
			S.seal(g, []byte("m2"))
			truth, err := S.cloneParty().st.getDeviceChainKeyForGroupAndDevice(ctx, groupPK(g), S.md(g).Device())
			must(err)
			// dry run: count the operations
			n := 0
			dry := S.cloneParty()
			dry.ds.fail = func(op, key string) error { n++; return nil }
			_, err = dry.st.GetShareableChainKey(ctx, g, R.md(g).Member())
			must(err)
			for i := 0; i < n; i++ {
				for _, fe := range []error{fmt.Errorf("injected: database is locked"), context.DeadlineExceeded} {
					P := S.cloneParty()
					k := 0
					var failedOp string
					P.ds.fail = func(op, key string) error {
						k++
						if k-1 == i {
							failedOp = op + " " + key
							return fe
						}
						return nil
					}
					ann, aerr := P.st.GetShareableChainKey(ctx, g, R.md(g).Member())
					P.ds.fail = nil
					rep.AddTransitions(1)
					cls := "refused"
					if aerr == nil {
						ck, derr := decryptDeviceChainKey(ann, g, R.md(g).member, S.md(g).Device())
						switch {
						case derr != nil:
							cls = "unreadable"
						case string(ck.ChainKey) == string(truth.ChainKey) && ck.Counter == truth.Counter:
							cls = "exact"
						default:
							cls = "other-key"
						}
						if cls != "exact" {
							rep.Violation("C05/announcement-not-exact-under-storage-fault", fmt.Sprintf("%s group (batched=%v): datastore operation %d of %d of GetShareableChainKey (%s) fails with '%v'; the call succeeds and the announcement is %s: it carries counter %d, the sender's chain is at %d (key equal: %v) - the recipient registers a key the sender never uses", kind, batched, i, n, failedOp, fe, cls, ck.GetCounter(), truth.Counter, ck != nil && string(ck.ChainKey) == string(truth.ChainKey)), map[string]interface{}{"group": kind, "batched": batched, "fault_at": i, "op": failedOp})
						}
					}
					rep.Eval(fmt.Sprintf("fault/%s/%s/%s", kind, strings.SplitN(failedOp, " ", 2)[0], cls))
					// and the sender's own chain must be untouched: the next message still opens at a receiver of the true key
					after, err := P.cloneParty().st.getDeviceChainKeyForGroupAndDevice(ctx, groupPK(g), S.md(g).Device())
					if err != nil || string(after.ChainKey) != string(truth.ChainKey) || after.Counter != truth.Counter {
						rep.Violation("C05/storage-fault-changes-chain-key", fmt.Sprintf("%s group: after a fault at operation %d (%s) the sender's stored chain key differs (err=%v)", kind, i, failedOp, err), map[string]interface{}{"group": kind, "fault_at": i})
					}
				}
			}
			rep.Sample(map[string]interface{}{"part": "announcement under one storage fault", "group": kind, "batched": batched, "datastore_operations": n})
		}
	}
}
