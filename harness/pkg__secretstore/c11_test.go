//go:build verif

package secretstore

import (
	"bytes"
	"crypto/rand"
	"encoding/hex"
	"fmt"
	"strings"
	"testing"

	"github.com/libp2p/go-libp2p/core/crypto"
	cryptopb "github.com/libp2p/go-libp2p/core/crypto/pb"
	"google.golang.org/protobuf/proto"

	"berty.tech/weshnet/v2/internal/zzverif/vrep"
	"berty.tech/weshnet/v2/pkg/protocoltypes"
)

func groupSummary(g *protocoltypes.Group) string {
	sk, err := g.GetSigningPrivKey()
	must(err)
	return fmt.Sprintf("%x/%x/%x/%d", g.PublicKey, g.Secret, mustBytes(sk.GetPublic().Raw()), g.GroupType)
}

func rawPub(k crypto.PubKey) string { return hex.EncodeToString(mustBytes(k.Raw())) }

func TestVerifC11(t *testing.T) {
	rep := vrep.New("C11")
	defer func() {
		if err := rep.Finish(); err != nil {
			t.Fatal(err)
		}
		if rep.NViolations() > 0 {
			t.Fail()
		}
	}()
	seed := vrep.Seed()
	accts := []string{"A", "B", "C", "D", "E", "F"}
	viol := func(sig, desc string, replay interface{}) { rep.Violation("C11/"+sig, desc, replay) }

	// ---- (1) contact groups: symmetric, pairwise unrelated
	stores := map[string]*party{}
	for _, a := range accts {
		stores[a] = newParty(seed, a, "1", 2, 2, false)
	}
	pairGroup := map[string]string{}
	for _, a := range accts {
		for _, b := range accts {
			if a == b {
				continue
			}
			g, err := stores[a].st.GetGroupForContact(stores[b].accountPub())
			if err != nil {
				viol("contact-derivation-error", a+"->"+b+": "+err.Error(), []string{a, b})
				continue
			}
			pairGroup[a+b] = groupSummary(g)
			if g.GroupType != protocoltypes.GroupType_GroupTypeContact || len(g.Secret) != 32 || len(g.PublicKey) != 32 {
				viol("contact-group-malformed", a+"->"+b, []string{a, b})
			}
		}
	}
	seenGroups := map[string]string{}
	for i, a := range accts {
		for _, b := range accts[i+1:] {
			same := pairGroup[a+b] == pairGroup[b+a]
			rep.Eval(fmt.Sprintf("contact-symmetry/%v", same))
			if !same {
				viol("contact-group-asymmetric", fmt.Sprintf("%s and %s derive different contact groups", a, b), []string{a, b})
			}
			// unrelated: id, secret and signing key all differ from every other pair's
			parts := bytes.Split([]byte(pairGroup[a+b]), []byte("/"))
			for pi, part := range parts[:3] {
				k := fmt.Sprintf("%d:%s", pi, part)
				if other, ok := seenGroups[k]; ok {
					viol("contact-groups-related", fmt.Sprintf("pairs %s%s and %s share component %d", a, b, other, pi), []string{a, b, other})
				}
				seenGroups[k] = a + b
			}
			rep.Eval("contact-distinct/true")
		}
	}
	rep.Sample(map[string]interface{}{"kind": "contact-pairs", "accounts": accts, "ordered_pairs": 30})

	// ---- (2) member key equal across devices, device keys distinct, both differ from account / proof keys
	groups := []*protocoltypes.Group{detGroupMultiMember(seed, "G1"), detGroupMultiMember(seed, "G2")}
	for _, a := range accts[:3] {
		for gi, g := range groups {
			var members, devices []string
			for _, d := range []string{"1", "2", "3"} {
				p := newParty(seed, a, d, 2, 2, false)
				md, err := p.st.GetOwnMemberDeviceForGroup(g)
				must(err)
				members = append(members, rawPub(md.Member()))
				devices = append(devices, rawPub(md.Device()))
				// the account proof key itself (GetAccountProofPublicKey hands out the account key in this code base, see
				// DESIGN.md, observations): taken from the exported keys
				_, proofBlob, err := p.st.ExportAccountKeysForBackup()
				must(err)
				proofSK, err := crypto.UnmarshalPrivateKey(proofBlob)
				must(err)
				proof := proofSK.GetPublic()
				acctDev := rawPub(p.md(&protocoltypes.Group{PublicKey: g.PublicKey, GroupType: protocoltypes.GroupType_GroupTypeContact}).Device())
				for _, forbidden := range []string{rawPub(p.accountPub()), rawPub(proof), acctDev} {
					if members[len(members)-1] == forbidden || devices[len(devices)-1] == forbidden {
						viol("group-identity-is-account-identity", fmt.Sprintf("account %s device %s group %d: member/device key equals an account-level key", a, d, gi), []string{a, d})
					}
				}
				// stable on re-derivation (cached) and on a store re-opened on the same datastore
				md2, _ := p.cloneParty().st.GetOwnMemberDeviceForGroup(g)
				if rawPub(md2.Member()) != members[len(members)-1] || rawPub(md2.Device()) != devices[len(devices)-1] {
					viol("member-device-unstable", "re-derivation differs", []string{a, d})
				}
			}
			okM := members[0] == members[1] && members[1] == members[2]
			okD := devices[0] != devices[1] && devices[1] != devices[2] && devices[0] != devices[2]
			rep.Eval(fmt.Sprintf("member-equal/%v/devices-distinct/%v", okM, okD))
			if !okM {
				viol("member-key-differs-across-devices", fmt.Sprintf("account %s group %d", a, gi), []string{a})
			}
			if !okD {
				viol("device-keys-equal", fmt.Sprintf("account %s group %d", a, gi), []string{a})
			}
		}
		// member keys of one account in two groups differ
		p := newParty(seed, a, "1", 2, 2, false)
		m1, _ := p.st.GetOwnMemberDeviceForGroup(groups[0])
		m2, _ := p.st.GetOwnMemberDeviceForGroup(groups[1])
		if rawPub(m1.Member()) == rawPub(m2.Member()) {
			viol("member-key-shared-between-groups", a, []string{a})
		}
	}
	for i, a := range accts[:3] {
		for _, b := range accts[i+1 : 3] {
			ma, _ := newParty(seed, a, "1", 2, 2, false).st.GetOwnMemberDeviceForGroup(groups[0])
			mb, _ := newParty(seed, b, "1", 2, 2, false).st.GetOwnMemberDeviceForGroup(groups[0])
			rep.Eval("member-distinct-across-accounts")
			if rawPub(ma.Member()) == rawPub(mb.Member()) {
				viol("member-key-shared-between-accounts", a+b, []string{a, b})
			}
		}
	}

	// ---- (2b) the account group: one identity per store, whichever call hands it out, and it is the account key /
	// the store's device key; two devices of the account agree on the group and the member, and differ in the device
	for _, a := range accts[:3] {
		var devKeys []string
		var groupsSeen []string
		for _, d := range []string{"1", "2"} {
			p := newParty(seed, a, d, 2, 2, false)
			g, md, err := p.st.GetGroupForAccount()
			must(err)
			md2, err := p.st.GetOwnMemberDeviceForGroup(g)
			must(err)
			g3, md3, err := p.cloneParty().st.GetGroupForAccount()
			must(err)
			acct := rawPub(p.accountPub())
			dev := rawPub(detKey(seed, "dev/"+a+"/"+d).GetPublic())
			ok := rawPub(md.Member()) == acct && rawPub(md2.Member()) == acct && rawPub(md3.Member()) == acct &&
				rawPub(md.Device()) == dev && rawPub(md2.Device()) == dev && rawPub(md3.Device()) == dev && groupSummary(g) == groupSummary(g3)
			rep.Eval(fmt.Sprintf("account-group-identity/%v", ok))
			if !ok {
				viol("account-group-identity-differs", fmt.Sprintf("account %s device %s: GetGroupForAccount hands out member %.12s device %.12s, GetOwnMemberDeviceForGroup(account group) member %.12s device %.12s, after reopen device %.12s; account key %.12s, device key %.12s", a, d, rawPub(md.Member()), rawPub(md.Device()), rawPub(md2.Member()), rawPub(md2.Device()), rawPub(md3.Device()), acct, dev), []string{a, d})
			}
			devKeys = append(devKeys, rawPub(md.Device()))
			groupsSeen = append(groupsSeen, groupSummary(g))
		}
		if groupsSeen[0] != groupsSeen[1] || devKeys[0] == devKeys[1] {
			viol("account-group-across-devices", fmt.Sprintf("account %s: same group on both devices=%v, distinct device keys=%v", a, groupsSeen[0] == groupsSeen[1], devKeys[0] != devKeys[1]), []string{a})
		}
	}

	// ---- (3) all sequences up to depth 4/5 over derive / export / import / re-derive on an original store P and a fresh store Q
	type st struct {
		P, Q *party
		qImp bool
		hist []string
		pdev string // P's device key for G once derived in this history (random per store, so per-history)
		qdev string
	}
	mkFresh := func() *party {
		ds := newMemDS(false)
		s, err := newSecretStore(ds, &NewSecretStoreOptions{PreComputedKeysCount: 2, PrecomputeOutOfStoreGroupRefsCount: 2})
		must(err)
		return &party{name: "Q", ds: ds, st: s, w: 2, n: 2}
	}
	ops := []string{"P.contact", "P.member", "P.reopen", "Q.import", "Q.contact", "Q.member", "Q.reopen", "Q.import-again"}
	depth := 4
	if vrep.Thorough() {
		depth = 5
	}
	X := stores["B"].accountPub()
	// the cache of computed agreement keys is addressed by (purpose, public key): the second configuration uses ONE
	// public key for both purposes (a multi-member group whose identifier is the contact's account key)
	colliding := detGroupMultiMember(seed, "G-colliding")
	colliding.PublicKey = mustBytes(X.Raw())
	var transitions, nstates int64
	for _, cfg := range []struct {
		name string
		G    *protocoltypes.Group
	}{{"distinct-keys", groups[0]}, {"group-key-equals-contact-key", colliding}} {
		G := cfg.G
		// what the other side derives for this pair is the reference for the contact group; the member key's reference is
		// the first value seen (every history starts from the same account keys)
		expected := map[string]string{"contact": pairGroup["BA"]}
		seenState := map[string]bool{}
		var rec func(s st)
		rec = func(s st) {
			key := s.P.ds.dump() + "|" + s.Q.ds.dump()
			if seenState[key] && len(s.hist) > 0 {
				// identical persistent state reached before: same futures (nothing lives outside the datastores)
			} else {
				seenState[key] = true
				nstates++
			}
			if len(s.hist) == depth {
				return
			}
			for _, op := range ops {
				n := st{P: s.P.cloneParty(), Q: s.Q.cloneParty(), qImp: s.qImp, pdev: s.pdev, qdev: s.qdev, hist: append(append([]string{}, s.hist...), op)}
				transitions++
				chk := func(name, val string) {
					if prev, ok := expected[name]; ok && prev != val {
						viol("derivation-differs", fmt.Sprintf("%s differs after %v (%s)", name, n.hist, cfg.name), map[string]interface{}{"configuration": cfg.name, "history": n.hist})
					}
					expected[name] = val
				}
				switch op {
				case "P.contact":
					g, err := n.P.st.GetGroupForContact(X)
					must(err)
					chk("contact", groupSummary(g))
				case "P.member":
					md, err := n.P.st.GetOwnMemberDeviceForGroup(G)
					must(err)
					chk("member", rawPub(md.Member()))
					if n.pdev != "" && n.pdev != rawPub(md.Device()) {
						viol("device-key-unstable", fmt.Sprintf("P's device key for the group changed in history %v", n.hist), n.hist)
					}
					n.pdev = rawPub(md.Device())
				case "P.reopen":
					n.P = n.P.cloneParty()
				case "Q.reopen":
					n.Q = n.Q.cloneParty()
				case "Q.import", "Q.import-again":
					a, b, err := n.P.st.ExportAccountKeysForBackup()
					must(err)
					before := n.Q.ds.dump()
					err = n.Q.st.ImportAccountKeys(a, b)
					// Q "has an account" once it imported, or once it derived anything (derivations generate an account on demand)
					qHas := n.qImp || qUsed(s.hist)
					rep.Eval(fmt.Sprintf("seq-import/q-has-account=%v/err=%v", qHas, err != nil))
					if qHas && err == nil {
						viol("import-onto-existing-account", fmt.Sprintf("import accepted although the store already has an account (history %v)", n.hist), n.hist)
					}
					if !qHas && err != nil {
						viol("import-refused-on-fresh-store", fmt.Sprintf("history %v: %v", n.hist, err), n.hist)
					}
					if err != nil && n.Q.ds.dump() != before {
						viol("refused-import-changed-keystore", fmt.Sprintf("history %v", n.hist), n.hist)
					}
					if err == nil {
						n.qImp = true
					}
				case "Q.contact":
					g, err := n.Q.st.GetGroupForContact(X)
					must(err)
					if n.qImp {
						chk("contact", groupSummary(g))
					}
				case "Q.member":
					md, err := n.Q.st.GetOwnMemberDeviceForGroup(G)
					must(err)
					if n.qdev != "" && n.qdev != rawPub(md.Device()) {
						viol("device-key-unstable", fmt.Sprintf("Q's device key for the group changed in history %v", n.hist), n.hist)
					}
					n.qdev = rawPub(md.Device())
					if n.qImp {
						chk("member", rawPub(md.Member()))
						if n.pdev != "" && n.pdev == rawPub(md.Device()) {
							viol("device-key-copied-by-import", fmt.Sprintf("history %v", n.hist), n.hist)
						}
						acct, _, err := n.Q.st.GetGroupForAccount()
						must(err)
						chk("account-group", hex.EncodeToString(acct.PublicKey)+"/"+hex.EncodeToString(acct.Secret))
					}
				}
				if op[0] == 'P' {
					acct, _, err := n.P.st.GetGroupForAccount()
					must(err)
					chk("account-group", hex.EncodeToString(acct.PublicKey)+"/"+hex.EncodeToString(acct.Secret))
				}
				rec(n)
			}
		}
		rec(st{P: newParty(seed, "A", "1", 2, 2, false), Q: mkFresh()})
		rep.Sample(map[string]interface{}{"kind": "sequences", "configuration": cfg.name, "ops": ops, "depth": depth, "transitions_so_far": transitions, "distinct_persistent_states_so_far": nstates})
	}
	rep.AddStates(nstates)
	rep.AddTransitions(transitions)

	// ---- (4) import refusal catalogue
	P := newParty(seed, "A", "1", 2, 2, false)
	accB, proofB, err := P.st.ExportAccountKeysForBackup()
	must(err)
	foreign := map[string][]byte{}
	{
		k, _, err := crypto.GenerateKeyPairWithReader(crypto.RSA, 2048, rand.Reader)
		must(err)
		foreign["rsa2048"] = mustBytes(crypto.MarshalPrivateKey(k))
		k, _, err = crypto.GenerateKeyPairWithReader(crypto.ECDSA, 0, rand.Reader)
		must(err)
		foreign["ecdsa"] = mustBytes(crypto.MarshalPrivateKey(k))
		k, _, err = crypto.GenerateKeyPairWithReader(crypto.Secp256k1, 0, rand.Reader)
		must(err)
		foreign["secp256k1"] = mustBytes(crypto.MarshalPrivateKey(k))
	}
	type imp struct {
		name       string
		a, b       []byte
		mustRefuse bool
		target     func() *party
	}
	var cases []imp
	for n, blob := range foreign {
		cases = append(cases, imp{"foreign-" + n + "-account-slot", blob, proofB, true, mkFresh}, imp{"foreign-" + n + "-proof-slot", accB, blob, true, mkFresh})
	}
	cases = append(cases,
		imp{"equal-keys", accB, accB, true, mkFresh},
		imp{"equal-keys-proof", proofB, proofB, true, mkFresh},
		imp{"empty-account", nil, proofB, true, mkFresh},
		imp{"empty-proof", accB, nil, true, mkFresh},
		imp{"both-empty", nil, nil, true, mkFresh},
		imp{"store-with-account-key", accB, proofB, true, func() *party {
			q := mkFresh()
			_, err := q.st.GetAccountPrivateKey()
			must(err)
			return q
		}},
		imp{"store-with-proof-key-only", accB, proofB, true, func() *party {
			q := mkFresh()
			// deriving a member key uses (and creates) the proof key and nothing else
			_, err := q.st.GetOwnMemberDeviceForGroup(groups[0])
			must(err)
			return q
		}},
		imp{"store-after-import", accB, proofB, true, func() *party {
			q := mkFresh()
			must(q.st.ImportAccountKeys(accB, proofB))
			return q
		}},
		imp{"valid", accB, proofB, false, mkFresh},
	)
	// the same key in both slots, written in two encodings (the 64-byte and the older 96-byte layout of an Ed25519
	// private key: seed||public||public): still equal keys
	{
		legacy := func(blob []byte) []byte {
			k := &cryptopb.PrivateKey{}
			must(proto.Unmarshal(blob, k))
			if len(k.Data) != 64 {
				return nil
			}
			k.Data = append(append([]byte{}, k.Data...), k.Data[32:]...)
			return mustBytes(proto.Marshal(k))
		}
		if l := legacy(accB); l != nil {
			if _, err := crypto.UnmarshalPrivateKey(l); err == nil {
				cases = append(cases, imp{"equal-keys-two-encodings", accB, l, true, mkFresh}, imp{"equal-keys-two-encodings-swapped", l, accB, true, mkFresh})
			}
		}
	}
	for cut := 0; cut < len(accB); cut++ {
		cases = append(cases, imp{fmt.Sprintf("truncated-account@%d", cut), accB[:cut], proofB, true, mkFresh}, imp{fmt.Sprintf("truncated-proof@%d", cut), accB, proofB[:cut], true, mkFresh})
	}
	for _, c := range cases {
		q := c.target()
		before := q.ds.dump()
		var ierr error
		func() {
			defer func() {
				if r := recover(); r != nil {
					ierr = fmt.Errorf("PANIC %v", r)
					viol("import-panics", c.name, c.name)
				}
			}()
			ierr = q.st.ImportAccountKeys(c.a, c.b)
		}()
		cls := c.name
		if len(cls) > 9 && cls[:9] == "truncated" {
			cls = cls[:17]
		}
		rep.Eval(fmt.Sprintf("import/%s/refused=%v", cls, ierr != nil))
		if c.mustRefuse && ierr == nil {
			viol("import-accepted/"+cls, "import case "+c.name+" was accepted", c.name)
		}
		if !c.mustRefuse && ierr != nil {
			viol("import-refused/"+cls, "import case "+c.name+" was refused: "+ierr.Error(), c.name)
		}
		if ierr != nil && q.ds.dump() != before {
			viol("refused-import-changed-keystore", c.name, c.name)
		}
	}
	// swapped blobs: accepted, and yields the swapped identity consistently
	{
		q := mkFresh()
		if err := q.st.ImportAccountKeys(proofB, accB); err != nil {
			rep.Eval("import/swapped/refused=true")
		} else {
			rep.Eval("import/swapped/refused=false")
			a2, b2, err := q.st.ExportAccountKeysForBackup()
			must(err)
			if !bytes.Equal(a2, proofB) || !bytes.Equal(b2, accB) {
				viol("swapped-import-inconsistent", "store imported with swapped blobs exports something else", "swapped")
			}
		}
	}
	// export -> import reproduces account, contact-group and member identities on a fresh store (direct check)
	{
		q := mkFresh()
		must(q.st.ImportAccountKeys(accB, proofB))
		gp, _ := P.st.GetGroupForContact(X)
		gq, _ := q.st.GetGroupForContact(X)
		mp, _ := P.st.GetOwnMemberDeviceForGroup(groups[0])
		mq, _ := q.st.GetOwnMemberDeviceForGroup(groups[0])
		ap, _, _ := P.st.GetGroupForAccount()
		aq, _, _ := q.st.GetGroupForAccount()
		ok := groupSummary(gp) == groupSummary(gq) && rawPub(mp.Member()) == rawPub(mq.Member()) && bytes.Equal(ap.PublicKey, aq.PublicKey) && bytes.Equal(ap.Secret, aq.Secret)
		rep.Eval(fmt.Sprintf("export-import-identity/%v", ok))
		if !ok {
			viol("export-import-identity-differs", "imported store derives other identities", "export-import")
		}
	}
	rep.Sample(map[string]interface{}{"kind": "import-catalogue", "cases": len(cases) + 1})
	c11Faults(rep, seed, X, groups[0])
}

// c11Faults: one transient storage fault during a derivation. For every keystore/datastore operation a derivation
// performs, that one operation fails; the call must either fail or return the value every other device derives, and
// once the fault has gone the same values (and the device key generated before) come back.
func c11Faults(rep *vrep.Report, seed int64, X crypto.PubKey, G *protocoltypes.Group) {
	type val struct{ contact, member, device, account, export string }
	read := func(p *party, what string) (string, error) {
		switch what {
		case "contact":
			g, err := p.st.GetGroupForContact(X)
			if err != nil {
				return "", err
			}
			return groupSummary(g), nil
		case "member", "device":
			md, err := p.st.GetOwnMemberDeviceForGroup(G)
			if err != nil {
				return "", err
			}
			if what == "member" {
				return rawPub(md.Member()), nil
			}
			return rawPub(md.Device()), nil
		case "account":
			g, _, err := p.st.GetGroupForAccount()
			if err != nil {
				return "", err
			}
			return groupSummary(g), nil
		default:
			a, b, err := p.st.ExportAccountKeysForBackup()
			if err != nil {
				return "", err
			}
			return hex.EncodeToString(a) + "/" + hex.EncodeToString(b), nil
		}
	}
	whats := []string{"contact", "member", "device", "account", "export"}
	for _, stateName := range []string{"keys-only", "everything-derived-once"} {
		base := newParty(seed, "A", "1", 2, 2, false)
		truth := map[string]string{}
		ref := base.cloneParty()
		for _, w := range whats {
			v, err := read(ref, w)
			must(err)
			truth[w] = v
		}
		if stateName == "everything-derived-once" {
			base = ref // its device key for G exists now and must never change
		}
		for _, w := range whats {
			n := 0
			dry := base.cloneParty()
			dry.ds.fail = func(op, key string) error { n++; return nil }
			_, err := read(dry, w)
			must(err)
			for i := 0; i < n; i++ {
				P := base.cloneParty()
				cnt := 0
				var fop string
				P.ds.fail = func(op, key string) error {
					cnt++
					if cnt-1 == i {
						fop = op + " " + key
						return fmt.Errorf("injected: database is locked")
					}
					return nil
				}
				v, ferr := read(P, w)
				P.ds.fail = nil
				rep.AddTransitions(1)
				cls := "refused"
				deviceFixed := stateName == "everything-derived-once"
				if ferr == nil {
					cls = "same"
					if (w != "device" || deviceFixed) && v != truth[w] {
						cls = "other-value"
					}
				}
				after := "same"
				for _, w2 := range whats {
					v2, err := read(P, w2)
					if err != nil {
						after = "unusable:" + w2
						break
					}
					if (w2 != "device" || deviceFixed) && v2 != truth[w2] {
						after = "changed:" + w2
						break
					}
				}
				rep.Eval(fmt.Sprintf("fault/%s/%s/%s/%s/after=%s", stateName, w, strings.SplitN(fop, " ", 2)[0], cls, strings.SplitN(after, ":", 2)[0]))
				if cls == "other-value" || after != "same" {
					rep.Violation("C11/derivation-differs-after-storage-fault", fmt.Sprintf("state %s: operation %d of %d of deriving '%s' (%s) fails once: the call returned %s; afterwards: %s (other devices of the account derive something else from now on)", stateName, i, n, w, fop, cls, after), map[string]interface{}{"state": stateName, "derivation": w, "fault_at": i, "op": fop})
				}
			}
		}
		rep.Sample(map[string]interface{}{"kind": "one storage fault during a derivation", "state": stateName, "derivations": whats})
	}
}

func qUsed(hist []string) bool {
	for _, h := range hist {
		if h == "Q.contact" || h == "Q.member" || h == "Q.import" || h == "Q.import-again" {
			return true
		}
	}
	return false
}
