//go:build verif

package secretstore

import (
	"strings"
	"bytes"
	"context"
	"encoding/hex"
	"fmt"
	"testing"

	"github.com/libp2p/go-libp2p/core/crypto"
	"google.golang.org/protobuf/proto"

	"berty.tech/weshnet/v2/internal/zzverif/vrep"
	"berty.tech/weshnet/v2/pkg/protocoltypes"
)

// A crash workload is a script of operations executed by ONE store (the process that stops); everything it
// consumes from other parties (envelopes, announcements) is prepared beforehand.
type c10Op struct {
	Name string
	Kind string // reg | open | push | seal | key
	// msg identifies the message (for open/push) in the workload's message table
	Msg int
	Run func(p *party) (string, error)
}

type c10Workload struct {
	// openableAfter[i]: messages openable right after operation i in the crash-free run
	openableAfter []map[int]bool
	Name    string
	Batched bool
	Fresh   func() *party // the store under test, before the script
	Ops     []c10Op
	// probes: all messages of the workload, opened through the log on a clone
	Msgs []c10Msg
	// datastore at the end of the crash-free run
	cleanEnd *memDS
}

type c10Msg struct {
	Label   string
	G       *protocoltypes.Group
	Data    []byte
	Payload []byte
}

func (w *c10Workload) probe(p *party, ds *memDS, m c10Msg) openResult {
	return p.onDS(ds.clone()).open(m.G, m.Data)
}

type c10Case struct {
	Workload string `json:"workload"`
	Batched  bool   `json:"batched"`
	Crash    []int  `json:"crash_after_mutations"`
	Detail   string `json:"detail"`
}

// materialise returns initial state + the first p recorded mutations.
func materialise(initial *memDS, log []dsMutation, p int) *memDS {
	ds := initial.clone()
	for i := 0; i < p; i++ {
		ds.applyMutation(log[i])
	}
	return ds
}

// c10Receiver builds receiver workloads for one group type.
func c10ReceiverWorkloads(seed int64, kind string, batched bool) []*c10Workload {
	const w = 2
	cfg := c02Cfg{Kind: kind, W: w, N: 4, C: []int{1, 0}, Senders: 2}
	g, R, ss := c02Build(seed, cfg)
	_ = R
	// a second group with its own sender (interleaving on two groups)
	g2 := detGroupMultiMember(seed, "G2-"+kind)
	s2 := newParty(seed, "Z", "1", w, 2, false)
	fresh := func() *party {
		p := newParty(seed, map[string]string{"account": "A", "contact": "B", "multimember": "B"}[kind], "r", w, 2, batched)
		return p
	}
	rm2 := fresh().md(g2).Member()
	ann2 := s2.announce(g2, rm2)
	var env2 [][]byte
	var pay2 [][]byte
	for i := 1; i <= 3; i++ {
		pl := []byte(fmt.Sprintf("g2-%d", i))
		pay2 = append(pay2, pl)
		env2 = append(env2, s2.seal(g2, pl))
	}
	var msgs []c10Msg
	for si, s := range ss {
		for i := range s.envs {
			msgs = append(msgs, c10Msg{Label: fmt.Sprintf("s%d/%d", si, i+1), G: g, Data: s.envs[i], Payload: s.pay[i]})
		}
	}
	for i := range env2 {
		msgs = append(msgs, c10Msg{Label: fmt.Sprintf("g2/%d", i+1), G: g2, Data: env2[i], Payload: pay2[i]})
	}
	idx := func(label string) int {
		for i, m := range msgs {
			if m.Label == label {
				return i
			}
		}
		panic(label)
	}
	reg := func(si int, c int) c10Op {
		return c10Op{Name: fmt.Sprintf("reg(s%d@%d)", si, c), Kind: "reg", Run: func(p *party) (string, error) {
			return "", p.st.RegisterChainKey(context.Background(), g, ss[si].p.md(g).Device(), ss[si].anns[c])
		}}
	}
	reg2 := c10Op{Name: "reg(g2)", Kind: "reg", Run: func(p *party) (string, error) {
		return "", p.st.RegisterChainKey(context.Background(), g2, s2.md(g2).Device(), ann2)
	}}
	open := func(label string) c10Op {
		m := msgs[idx(label)]
		return c10Op{Name: "open(" + label + ")", Kind: "open", Msg: idx(label), Run: func(p *party) (string, error) {
			r := p.logOpen(m.G, m.Data)
			if !r.ok {
				return "", fmt.Errorf("%s", r.err)
			}
			return string(r.payload), nil
		}}
	}
	putGroup := c10Op{Name: "putgroup", Kind: "key", Run: func(p *party) (string, error) { return "", p.st.PutGroup(context.Background(), g) }}
	push := func(label string) c10Op {
		m := msgs[idx(label)]
		env, headers, err := ss[0].p.st.OpenEnvelopeHeaders(m.Data, g)
		must(err)
		oos, err := ss[0].p.st.SealOutOfStoreMessageEnvelope(cidOf(m.Data), env, headers, g)
		must(err)
		b := mustBytes(proto.Marshal(oos))
		return c10Op{Name: "push(" + label + ")", Kind: "push", Msg: idx(label), Run: func(p *party) (string, error) {
			r := p.pushOpen(b)
			if !r.ok {
				return "", fmt.Errorf("%s", r.err)
			}
			return string(r.payload), nil
		}}
	}
	mk := func(name string, ops ...c10Op) *c10Workload {
		return &c10Workload{Name: kind + "/" + name, Batched: batched, Fresh: fresh, Ops: ops, Msgs: msgs}
	}
	return []*c10Workload{
		mk("in-order", reg(0, 1), open("s0/2"), open("s0/3"), open("s0/4")),
		mk("out-of-order-dup", reg(0, 1), open("s0/3"), open("s0/2"), open("s0/2"), open("s0/4"), open("s0/3")),
		mk("reregister", reg(0, 1), open("s0/2"), reg(0, 1), reg(0, 0), open("s0/3")),
		mk("two-senders-two-groups", reg(0, 1), reg2, open("s0/2"), open("g2/1"), reg(1, 0), open("s1/1"), open("g2/2"), open("s0/3"), open("s1/2")),
		mk("push-mixed", putGroup, reg(0, 1), push("s0/2"), open("s0/2"), push("s0/3"), push("s0/2"), open("s0/3")),
	}
}

func c10RunReceiver(rep *vrep.Report, wl *c10Workload, double bool) {
	// clean run with recording
	P := wl.Fresh()
	initial := P.ds.clone()
	var log []dsMutation
	P.ds.log = &log
	boundary := make([]int, 0, len(wl.Ops)+1)
	results := make([]string, len(wl.Ops))
	for i, op := range wl.Ops {
		boundary = append(boundary, len(log))
		r, err := op.Run(P)
		if err != nil {
			panic(fmt.Sprintf("workload %s: op %s fails in the clean run: %v", wl.Name, op.Name, err))
		}
		results[i] = r
		after := map[int]bool{}
		for mi, m := range wl.Msgs {
			if wl.probe(P, P.ds, m).ok {
				after[mi] = true
			}
		}
		wl.openableAfter = append(wl.openableAfter, after)
	}
	boundary = append(boundary, len(log))
	P.ds.log = nil
	wl.cleanEnd = P.ds.clone()
	cleanFinal := map[int]bool{}
	for mi, m := range wl.Msgs {
		cleanFinal[mi] = wl.probe(P, P.ds, m).ok
	}
	rep.Sample(map[string]interface{}{"workload": wl.Name, "batched": wl.Batched, "ops": opNames(wl.Ops), "mutations": len(log), "crash_points": len(log) + 1})

	opAt := func(p int) int { // index of the operation in progress when p mutations have been applied
		for i := 0; i < len(wl.Ops); i++ {
			if p < boundary[i+1] {
				return i
			}
		}
		return len(wl.Ops)
	}

	var crashRun func(crashes []int, state *memDS, startOp int, ackOpen map[int]bool, depth int)
	crashRun = func(crashes []int, state *memDS, startOp int, ackOpen map[int]bool, depth int) {
		_ = depth
	}
	_ = crashRun

	for p := 0; p <= len(log); p++ {
		i := opAt(p)
		state := materialise(initial, log, p)
		atBoundary := materialise(initial, log, boundary[min(i, len(wl.Ops))])
		// what was acknowledged / openable before the stop
		ack := map[int]bool{}
		for j := 0; j < i; j++ {
			if wl.Ops[j].Kind == "open" {
				ack[wl.Ops[j].Msg] = true
			}
		}
		openable := map[int]bool{}
		for mi, m := range wl.Msgs {
			if wl.probe(P, atBoundary, m).ok {
				openable[mi] = true
			}
		}
		c10AfterRestart(rep, wl, P, state, i, ack, openable, results, []int{p}, cleanFinal, double, initial)
	}
}

func min(a, b int) int {
	if a < b {
		return a
	}
	return b
}

func opNames(ops []c10Op) []string {
	var out []string
	for _, o := range ops {
		out = append(out, o.Name)
	}
	return out
}

// c10AfterRestart restarts on `state`, re-issues operation i and continues the script, checking the oracle.
// With double=true every mutation of the continuation is again a crash point (second crash).
func c10AfterRestart(rep *vrep.Report, wl *c10Workload, P *party, state *memDS, i int, ack, openable map[int]bool, cleanResults []string, crashes []int, cleanFinal map[int]bool, double bool, _ *memDS) {
	viol := func(kind, desc string) {
		rep.Violation("C10/"+kind, fmt.Sprintf("workload=%s batched=%v crash after mutation(s) %v (during %s): %s", wl.Name, wl.Batched, crashes, opName(wl, i), desc),
			c10Case{Workload: wl.Name, Batched: wl.Batched, Crash: crashes, Detail: desc})
	}
	class := fmt.Sprintf("%s/during-%s/crashes=%d", kindOfWorkload(wl.Name), opKind(wl, i), len(crashes))
	rep.Eval(class)
	// (1) acknowledged opens re-open right after restart, before anything is re-issued
	for mi := range ack {
		m := wl.Msgs[mi]
		r := wl.probe(P, state, m)
		if !r.ok {
			viol("opened-message-lost", fmt.Sprintf("message %s had been opened (acknowledged) before the stop and no longer opens: %s", m.Label, r.err))
		} else if !bytes.Equal(r.payload, m.Payload) {
			viol("opened-message-changed", "message "+m.Label+" opens to another payload")
		}
	}
	// restart, re-issue the interrupted operation, continue
	R := P.onDS(state.clone())
	var log2 []dsMutation
	restartState := R.ds.clone()
	R.ds.log = &log2
	boundary2 := []int{}
	reissueFailed := false
	logOpenAfterRestart := false
	for j := i; j < len(wl.Ops); j++ {
		boundary2 = append(boundary2, len(log2))
		_, err := wl.Ops[j].Run(R)
		if j == i && wl.Ops[j].Kind == "reg" && err == nil && len(crashes) == 1 {
			// an interrupted registration that is issued again must take effect: what the registration makes
			// openable in a crash-free run is openable now
			for mi := range wl.openableAfter[j] {
				m := wl.Msgs[mi]
				if r := wl.probe(P, R.ds, m); !r.ok {
					viol("reissued-registration-ineffective", fmt.Sprintf("the registration was interrupted and issued again after restart; message %s, openable right after this registration in a crash-free run, does not open: %s", m.Label, r.err))
					break
				}
			}
		}
		if j == i {
			// (2) after re-issuing the interrupted op: everything that was openable at the last boundary is openable
			for mi := range openable {
				m := wl.Msgs[mi]
				r := wl.probe(P, R.ds, m)
				if !r.ok {
					viol("openable-message-lost", fmt.Sprintf("message %s was openable before the stop and is not after restart: %s", m.Label, r.err))
				} else if !bytes.Equal(r.payload, m.Payload) {
					viol("opened-message-changed", "message "+m.Label+" opens to another payload")
				}
			}
		}
		if err == nil && wl.Ops[j].Kind == "open" {
			logOpenAfterRestart = true
		}
		if err != nil {
			reissueFailed = true
			if wl.Ops[j].Kind == "reg" || (wl.Ops[j].Kind == "open" && (openable[wl.Ops[j].Msg] || ack[wl.Ops[j].Msg])) {
				viol("continuation-failed", fmt.Sprintf("operation %s fails after restart: %v", wl.Ops[j].Name, err))
			} else if wl.Ops[j].Kind == "push" && len(crashes) == 1 && logOpenAfterRestart && wl.probe(P, R.ds, wl.Msgs[wl.Ops[j].Msg]).ok {
				// the store stays usable for the push path: once a message of the sender has gone through the log
				// after the restart (which rebuilds the sender's reference window), a push payload that opens at this
				// point of the crash-free run opens here too. (Before that first log open the current code may refuse
				// pushes when the stop fell between the chain-key write and the reference update of a registration:
				// recorded as an observation, the statement of C10 does not cover it.)
				viol("push-open-lost-after-restart", fmt.Sprintf("operation %s (succeeds in the crash-free run; the same message opens through the log and a log open has rebuilt the reference window since the restart) fails: %v", wl.Ops[j].Name, err))
			} else {
				rep.Add("continuation_ops_failing_after_crash_not_required", 1)
			}
		}
	}
	boundary2 = append(boundary2, len(log2))
	R.ds.log = nil
	_ = reissueFailed
	// consistency of what survives: when every message of the workload is offered again and again until nothing more
	// opens (C02's retry), a message that opens that way after the crash-free run and does not after the crashed run,
	// while a LATER message of the same sender does, is a hole in the sender's key sequence that nothing will ever
	// fill (a window that is merely one key short at its far end never produces one)
	if len(crashes) == 1 {
		fix := func(ds *memDS) map[int]bool {
			p := P.onDS(ds.clone())
			opened := map[int]bool{}
			for progress := true; progress; {
				progress = false
				for mi, m := range wl.Msgs {
					if !opened[mi] && p.open(m.G, m.Data).ok {
						opened[mi] = true
						progress = true
					}
				}
			}
			return opened
		}
		cf, rf := fix(wl.cleanEnd), fix(R.ds)
		for mi, m := range wl.Msgs {
			if !cf[mi] || rf[mi] {
				continue
			}
			sender := m.Label[:strings.Index(m.Label, "/")+1]
			for mj := mi + 1; mj < len(wl.Msgs); mj++ {
				if strings.HasPrefix(wl.Msgs[mj].Label, sender) && rf[mj] {
					viol("hole-in-key-sequence-after-crash", fmt.Sprintf("after the restart and the continuation, with every message offered until nothing more opens: %s never opens while the later %s of the same sender does (both open in the crash-free run)", m.Label, wl.Msgs[mj].Label))
					break
				}
			}
		}
	}
	// informational: messages openable at the end of the clean run but not at the end of the crashed run
	for mi, ok := range cleanFinal {
		if ok && !wl.probe(P, R.ds, wl.Msgs[mi]).ok {
			rep.Add("final_openable_set_smaller_than_clean_run", 1)
			break
		}
	}
	if double && len(crashes) == 1 {
		for p2 := 0; p2 <= len(log2); p2++ {
			j := len(wl.Ops)
			for k := 0; k+i < len(wl.Ops); k++ {
				if p2 < boundary2[k+1] {
					j = i + k
					break
				}
			}
			st2 := materialise(restartState, log2, p2)
			bIdx := j - i
			if bIdx > len(boundary2)-1 {
				bIdx = len(boundary2) - 1
			}
			atB := materialise(restartState, log2, boundary2[bIdx])
			ack2 := map[int]bool{}
			for k := range ack {
				ack2[k] = true
			}
			for k := i; k < j; k++ {
				if wl.Ops[k].Kind == "open" {
					ack2[wl.Ops[k].Msg] = true
				}
			}
			openable2 := map[int]bool{}
			for mi, m := range wl.Msgs {
				if wl.probe(P, atB, m).ok {
					openable2[mi] = true
				}
			}
			c10AfterRestart(rep, wl, P, st2, j, ack2, openable2, cleanResults, append(append([]int{}, crashes...), p2), cleanFinal, false, nil)
		}
	}
}

func opName(wl *c10Workload, i int) string {
	if i >= len(wl.Ops) {
		return "end"
	}
	return wl.Ops[i].Name
}

func opKind(wl *c10Workload, i int) string {
	if i >= len(wl.Ops) {
		return "end"
	}
	return wl.Ops[i].Kind
}

func kindOfWorkload(name string) string { return name }

// ---- sender side: an envelope handed to the caller never shares its counter with one sealed after restart

func c10Sender(rep *vrep.Report, seed int64, kind string, batched, double bool) {
	const w = 2
	mkS := func() *party { return newParty(seed, "A", "1", w, 2, batched) }
	var g *protocoltypes.Group
	var R0 *party
	switch kind {
	case "account":
		R0 = newParty(seed, "A", "r", 8, 2, false)
		g, _, _ = R0.st.GetGroupForAccount()
	case "contact":
		R0 = newParty(seed, "B", "r", 8, 2, false)
		var err error
		g, err = R0.st.GetGroupForContact(mkS().accountPub())
		must(err)
	default:
		R0 = newParty(seed, "B", "r", 8, 2, false)
		g = detGroupMultiMember(seed, "G1")
	}
	rm := R0.md(g).Member()
	type out struct {
		ann []byte
		env []byte
	}
	nOps := 5 // announce, seal, seal, announce, seal
	run := func(p *party, j int) out {
		switch j {
		case 0, 3:
			return out{ann: p.announce(g, rm)}
		default:
			return out{env: p.seal(g, []byte(fmt.Sprintf("m%d", j)))}
		}
	}
	wlName := kind + "/sender"
	S := mkS()
	initial := S.ds.clone()
	var log []dsMutation
	S.ds.log = &log
	var boundary []int
	var outs []out
	for j := 0; j < nOps; j++ {
		boundary = append(boundary, len(log))
		outs = append(outs, run(S, j))
	}
	boundary = append(boundary, len(log))
	S.ds.log = nil
	rep.Sample(map[string]interface{}{"workload": wlName, "batched": batched, "ops": []string{"announce", "seal", "seal", "announce", "seal"}, "mutations": len(log), "crash_points": len(log) + 1})

	var after func(state *memDS, i int, returned []out, crashes []int, allowSecond bool)
	after = func(state *memDS, i int, returned []out, crashes []int, allowSecond bool) {
		rep.Eval(fmt.Sprintf("%s/during-op%d/crashes=%d", wlName, i, len(crashes)))
		viol := func(k, desc string) {
			rep.Violation("C10/"+k, fmt.Sprintf("workload=%s batched=%v crash after mutation(s) %v: %s", wlName, batched, crashes, desc),
				c10Case{Workload: wlName, Batched: batched, Crash: crashes, Detail: desc})
		}
		P := S.onDS(state.clone())
		restart := P.ds.clone()
		var log2 []dsMutation
		P.ds.log = &log2
		var b2 []int
		all := append([]out{}, returned...)
		for j := i; j < nOps; j++ {
			b2 = append(b2, len(log2))
			all = append(all, run(P, j))
		}
		b2 = append(b2, len(log2))
		P.ds.log = nil
		// one more message after everything
		all = append(all, out{env: P.seal(g, []byte("final"))})
		// counters pairwise distinct, every envelope opens at a receiver that registered the first announcement handed out
		seen := map[uint64]bool{}
		var firstAnn []byte
		for _, o := range all {
			if o.ann != nil && firstAnn == nil {
				firstAnn = o.ann
			}
		}
		R := R0.cloneParty()
		if err := R.st.RegisterChainKey(context.Background(), g, P.md(g).Device(), firstAnn); err != nil {
			viol("announcement-unusable", "announcement handed out does not register: "+err.Error())
			return
		}
		for _, o := range all {
			if o.env == nil {
				continue
			}
			_, h, err := R.st.OpenEnvelopeHeaders(o.env, g)
			if err != nil {
				viol("envelope-unreadable", err.Error())
				continue
			}
			if seen[h.Counter] {
				viol("counter-reused-after-restart", fmt.Sprintf("counter %d used by an envelope returned before the stop and by one sealed after restart", h.Counter))
			}
			seen[h.Counter] = true
			if r := R.open(g, o.env); !r.ok {
				viol("envelope-does-not-open", fmt.Sprintf("envelope with counter %d does not open at a receiver: %s", h.Counter, r.err))
			}
		}
		// every later announcement handed out must be consistent with the chain (registers at a fresh receiver and opens the final message)
		if allowSecond {
			for p2 := 0; p2 <= len(log2); p2++ {
				j := nOps
				for k := 0; k+i < nOps; k++ {
					if p2 < b2[k+1] {
						j = i + k
						break
					}
				}
				ret2 := append([]out{}, returned...)
				ret2 = append(ret2, all[len(returned):len(returned)+(j-i)]...)
				after(materialise(restart, log2, p2), j, ret2, append(append([]int{}, crashes...), p2), false)
			}
		}
	}
	for p := 0; p <= len(log); p++ {
		i := nOps
		for k := 0; k < nOps; k++ {
			if p < boundary[k+1] {
				i = k
				break
			}
		}
		after(materialise(initial, log, p), i, outs[:i], []int{p}, double)
	}
}

// ---- keys: account, proof, device, member, contact-group keys read after restart equal those returned before

func c10Keys(rep *vrep.Report, seed int64, batched bool) {
	g := detGroupMultiMember(seed, "G1")
	other := detKey(seed, "acct/X").GetPublic()
	type kop struct {
		name string
		run  func(p *party) string
	}
	raw := func(k crypto.PubKey) string { return hex.EncodeToString(mustBytes(k.Raw())) }
	ops := []kop{
		{"GetGroupForAccount", func(p *party) string {
			grp, md, err := p.st.GetGroupForAccount()
			must(err)
			return hex.EncodeToString(grp.PublicKey) + "/" + hex.EncodeToString(grp.Secret) + "/" + raw(md.Member()) + "/" + raw(md.Device())
		}},
		{"GetOwnMemberDeviceForGroup(G1)", func(p *party) string {
			md, err := p.st.GetOwnMemberDeviceForGroup(g)
			must(err)
			return raw(md.Member()) + "/" + raw(md.Device())
		}},
		{"GetGroupForContact(X)", func(p *party) string {
			grp, err := p.st.GetGroupForContact(other)
			must(err)
			return hex.EncodeToString(grp.PublicKey) + "/" + hex.EncodeToString(grp.Secret)
		}},
		{"ExportAccountKeysForBackup", func(p *party) string {
			a, b, err := p.st.ExportAccountKeysForBackup()
			must(err)
			return hex.EncodeToString(a) + "/" + hex.EncodeToString(b)
		}},
		{"GetAccountProofPublicKey", func(p *party) string {
			k, err := p.st.GetAccountProofPublicKey()
			must(err)
			return raw(k)
		}},
	}
	// every order of first use would be 120 permutations; rotations + reversal give each op in each position
	var orders [][]int
	for r := 0; r < len(ops); r++ {
		var o, rev []int
		for k := 0; k < len(ops); k++ {
			o = append(o, (r+k)%len(ops))
		}
		for k := len(o) - 1; k >= 0; k-- {
			rev = append(rev, o[k])
		}
		orders = append(orders, o, rev)
	}
	for oi, order := range orders {
		ds := newMemDS(batched)
		st, err := newSecretStore(ds, &NewSecretStoreOptions{PreComputedKeysCount: 2, PrecomputeOutOfStoreGroupRefsCount: 2})
		must(err)
		P := &party{name: "fresh", ds: ds, st: st, w: 2, n: 2}
		initial := ds.clone()
		var log []dsMutation
		ds.log = &log
		var boundary []int
		var results []string
		for _, k := range order {
			boundary = append(boundary, len(log))
			results = append(results, ops[k].run(P))
		}
		boundary = append(boundary, len(log))
		ds.log = nil
		if oi == 0 {
			rep.Sample(map[string]interface{}{"workload": "keys/first-use", "batched": batched, "orders": len(orders), "mutations": len(log)})
		}
		for p := 0; p <= len(log); p++ {
			i := len(order)
			for k := 0; k < len(order); k++ {
				if p < boundary[k+1] {
					i = k
					break
				}
			}
			rep.Eval(fmt.Sprintf("keys/order%d/during-op%d", oi, i))
			R := P.onDS(materialise(initial, log, p))
			for k := 0; k < i; k++ {
				if got := ops[order[k]].run(R); got != results[k] {
					rep.Violation("C10/key-changed-after-restart", fmt.Sprintf("keys: %s returned another value after a crash at mutation %d (order %v)", ops[order[k]].name, p, order),
						c10Case{Workload: "keys", Batched: batched, Crash: []int{p}, Detail: ops[order[k]].name})
				}
			}
			// and the values read now are stable across a second restart
			first := make([]string, len(ops))
			for k := range ops {
				first[k] = ops[k].run(R)
			}
			R2 := R.cloneParty()
			for k := range ops {
				if ops[k].run(R2) != first[k] {
					rep.Violation("C10/key-unstable", "keys: "+ops[k].name+" differs across restarts", c10Case{Workload: "keys", Batched: batched, Crash: []int{p}, Detail: ops[k].name})
				}
			}
		}
	}
}

func TestVerifC10(t *testing.T) {
	rep := vrep.New("C10")
	defer func() {
		if err := rep.Finish(); err != nil {
			t.Fatal(err)
		}
		if rep.NViolations() > 0 {
			t.Fail()
		}
	}()
	seed := vrep.Seed()
	double := vrep.Thorough()
	for _, batched := range []bool{true, false} {
		for _, kind := range []string{"multimember", "contact", "account"} {
			for _, wl := range c10ReceiverWorkloads(seed, kind, batched) {
				c10RunReceiver(rep, wl, double)
			}
			c10Sender(rep, seed, kind, batched, double)
		}
		c10Keys(rep, seed, batched)
	}
	rep.Set("second_crash_enumerated", double)
}
