//go:build verif

package secretstore

import (
	"context"
	"fmt"
	"os"
	"sort"
	"strings"
	"testing"
	"time"

	"github.com/libp2p/go-libp2p/core/crypto"
	"google.golang.org/protobuf/proto"

	"berty.tech/weshnet/v2/internal/zzverif/vrep"
	"berty.tech/weshnet/v2/internal/zzverif/vsync"
	"berty.tech/weshnet/v2/pkg/protocoltypes"
)

// C09: concurrent SealEnvelope calls under the controlled scheduler. The package's own mutexes are scheduler
// visible (rewritten), and every datastore operation of the store under test is a scheduling point.

type c09World struct {
	S        *party
	gs       []*protocoltypes.Group
	envs     [][]byte
	envGroup []int
	errs     []string
	ckWrites map[string][]uint64 // datastore key -> counters written, in order
	side     []string
	R        *party
	anns     [][]byte
	// first-use scenarios: what each thread's GetShareableChainKey returned, and the receiving member
	firstAnns [][]byte
	rMember   crypto.PubKey
}

type c09Scenario struct {
	Kind    string
	Senders int
	Msgs    int
	Groups  int
	Side    string // "", "announce", "open-own", "first-use" (the chain key does not exist yet: every thread announces, then sends)
}

func (sc c09Scenario) name() string {
	return fmt.Sprintf("%s senders=%d msgs=%d groups=%d side=%s", sc.Kind, sc.Senders, sc.Msgs, sc.Groups, sc.Side)
}

func c09Groups(seed int64, sc c09Scenario, S *party) []*protocoltypes.Group {
	var gs []*protocoltypes.Group
	switch sc.Kind {
	case "account":
		g, _, err := S.st.GetGroupForAccount()
		must(err)
		gs = append(gs, g)
	case "contact":
		g, err := S.st.GetGroupForContact(detKey(seed, "acct/B").GetPublic())
		must(err)
		gs = append(gs, g)
	default:
		gs = append(gs, detGroupMultiMember(seed, "G1"))
	}
	if sc.Groups == 2 {
		if sc.Kind == "contact" {
			// a second group in which the device uses the SAME device key (account and contact groups share it; each
			// multi-member group has its own): the two chains must stay apart
			g, _, err := S.st.GetGroupForAccount()
			must(err)
			gs = append(gs, g)
		} else {
			gs = append(gs, detGroupMultiMember(seed, "G2"))
		}
	}
	return gs
}

func c09Scen(seed int64, sc c09Scenario) vsync.Scenario {
	return vsync.Scenario{
		Name: sc.name(),
		Setup: func(s *vsync.Sched) vsync.World {
			w := &c09World{ckWrites: map[string][]uint64{}}
			w.S = newParty(seed, "A", "1", 2, 2, false)
			w.gs = c09Groups(seed, sc, w.S)
			w.R = newParty(seed, map[string]string{"account": "A"}[sc.Kind]+map[string]string{"contact": "B", "multimember": "B"}[sc.Kind], "r", 16, 2, false)
			if sc.Side != "first-use" {
				for _, g := range w.gs {
					// creates the device's chain key; the receiver's announcement is taken before any send (counter 0)
					w.anns = append(w.anns, w.S.announce(g, w.R.md(g).Member()))
				}
			} else {
				// derive the (lazily generated) member/device keys now, the chain key stays absent
				w.S.md(w.gs[0])
				w.rMember = w.R.md(w.gs[0]).Member()
			}
			var pre []byte
			if sc.Side == "open-own" || sc.Side == "push-own" {
				pre = w.S.seal(w.gs[0], []byte("pre"))
				w.envs = append(w.envs, pre)
				w.envGroup = append(w.envGroup, 0)
			}
			// from here on every datastore operation is a scheduling point, chain-key writes are recorded
			w.S.ds.hook = func(op, key string) {
				vsync.PointHere("ds-" + op)
			}
			w.S.ds.onPut = func(key string, val []byte) {
				if strings.HasPrefix(key, "/"+dsNamespaceChainKeyForDeviceOnGroup+"/") {
					ck := &protocoltypes.DeviceChainKey{}
					if proto.Unmarshal(val, ck) == nil {
						w.ckWrites[key] = append(w.ckWrites[key], ck.Counter)
					}
				}
			}
			for t := 0; t < sc.Senders; t++ {
				t := t
				vsync.GoNamed(fmt.Sprintf("T%d", t), func() {
					if sc.Side == "first-use" {
						b, err := w.S.st.GetShareableChainKey(context.Background(), w.gs[0], w.rMember)
						if err != nil {
							w.errs = append(w.errs, "announce: "+err.Error())
						} else {
							w.firstAnns = append(w.firstAnns, b)
						}
					}
					for i := 0; i < sc.Msgs; i++ {
						gi := 0
						if sc.Groups == 2 {
							gi = (t + i) % 2
						}
						msg, _ := protoMarshalEncrypted([]byte(fmt.Sprintf("m-%d-%d", t, i)))
						env, err := w.S.st.SealEnvelope(context.Background(), w.gs[gi], msg)
						if err != nil {
							w.errs = append(w.errs, err.Error())
							continue
						}
						w.envs = append(w.envs, env)
						w.envGroup = append(w.envGroup, gi)
					}
				})
			}
			switch sc.Side {
			case "announce":
				vsync.GoNamed("A", func() {
					b, err := w.S.st.GetShareableChainKey(context.Background(), w.gs[0], detKey(seed, "acct/B").GetPublic())
					w.side = append(w.side, fmt.Sprintf("announce len=%d err=%v", len(b), err))
				})
			case "push-own":
				vsync.GoNamed("O", func() {
					// the device opens its own message from a push payload (a notification relayed back to it)
					env, headers, err := w.S.st.OpenEnvelopeHeaders(pre, w.gs[0])
					must(err)
					oos := &protocoltypes.OutOfStoreMessage{Cid: cidOf(pre).Bytes(), DevicePk: headers.DevicePk, Counter: headers.Counter, Sig: headers.Sig, EncryptedPayload: env.Message, Nonce: env.Nonce}
					_, _, oerr := w.S.st.OutOfStoreMessageOpen(context.Background(), oos, groupPK(w.gs[0]))
					w.side = append(w.side, fmt.Sprintf("push-own ok=%v", oerr == nil))
				})
			case "open-own":
				vsync.GoNamed("O", func() {
					// the device reads back its own message (what the message store does for local entries)
					r := w.S.open(w.gs[0], pre)
					w.side = append(w.side, fmt.Sprintf("open-own ok=%v %s", r.ok, r.err))
				})
			}
			return w
		},
		Check: func(x *vsync.Execution, wd vsync.World) (string, *vsync.Verdict) {
			w := wd.(*c09World)
			w.S.ds.hook, w.S.ds.onPut = nil, nil
			if len(x.Panics) > 0 {
				return "panic", &vsync.Verdict{Sig: "C09/panic", Desc: fmt.Sprint(x.Panics)}
			}
			if x.Deadlock {
				return "deadlock", &vsync.Verdict{Sig: "C09/deadlock", Desc: fmt.Sprint(x.BlockedAll)}
			}
			if len(w.errs) > 0 {
				return "error", &vsync.Verdict{Sig: "C09/seal-error", Desc: fmt.Sprint(w.errs)}
			}
			// counters per group: pairwise distinct, gap-free
			perGroup := map[int][]uint64{}
			var order []string
			for i, env := range w.envs {
				_, h, err := w.S.st.OpenEnvelopeHeaders(env, w.gs[w.envGroup[i]])
				if err != nil {
					return "unreadable", &vsync.Verdict{Sig: "C09/envelope-unreadable", Desc: err.Error()}
				}
				perGroup[w.envGroup[i]] = append(perGroup[w.envGroup[i]], h.Counter)
				order = append(order, fmt.Sprintf("g%d:%d", w.envGroup[i], h.Counter))
			}
			o := strings.Join(order, " ") + " | " + strings.Join(w.side, ";")
			for gi, cs := range perGroup {
				sorted := append([]uint64{}, cs...)
				sort.Slice(sorted, func(a, b int) bool { return sorted[a] < sorted[b] })
				for i, c := range sorted {
					if i > 0 && c == sorted[i-1] {
						return o, &vsync.Verdict{Sig: "C09/counter-reused", Desc: fmt.Sprintf("group %d: two envelopes carry counter %d (counters %v): the same message key and nonce protect two payloads", gi, c, cs)}
					}
					if c != uint64(i+1) {
						return o, &vsync.Verdict{Sig: "C09/counter-gap", Desc: fmt.Sprintf("group %d: counters %v are not 1..%d", gi, cs, len(cs))}
					}
				}
			}
			// stored chain-key counter never decreases
			for k, ws := range w.ckWrites {
				for i := 1; i < len(ws); i++ {
					if ws[i] < ws[i-1] {
						return o, &vsync.Verdict{Sig: "C09/chain-counter-decreased", Desc: fmt.Sprintf("%s written with counters %v", k, ws)}
					}
				}
			}
			if sc.Side == "first-use" {
				// every thread was handed the device's chain key: all of them must describe ONE chain (equal keys at
				// equal counters), and the earliest one opens everything
				type ann struct {
					ck  *protocoltypes.DeviceChainKey
					raw []byte
				}
				var as []ann
				for _, b := range w.firstAnns {
					ck, err := decryptDeviceChainKey(b, w.gs[0], w.R.md(w.gs[0]).member, w.S.md(w.gs[0]).Device())
					if err != nil {
						return o, &vsync.Verdict{Sig: "C09/announcement-unreadable", Desc: err.Error()}
					}
					as = append(as, ann{ck, b})
				}
				if len(as) == 0 {
					return o, &vsync.Verdict{Sig: "HARNESS/c09-no-announcement", Desc: "no thread obtained the chain key"}
				}
				best := 0
				for i, a := range as {
					for _, b := range as[:i] {
						if a.ck.Counter == b.ck.Counter && string(a.ck.ChainKey) != string(b.ck.ChainKey) {
							return o, &vsync.Verdict{Sig: "C09/two-chain-keys-handed-out", Desc: fmt.Sprintf("two concurrent first uses of the group were handed different chain keys at counter %d: a member holding one of them cannot open what is sealed under the other", a.ck.Counter)}
						}
					}
					if a.ck.Counter < as[best].ck.Counter {
						best = i
					}
				}
				w.anns = [][]byte{as[best].raw}
				o += fmt.Sprintf(" | announced@%d", as[best].ck.Counter)
				if as[best].ck.Counter != 0 {
					return o, &vsync.Verdict{Sig: "C09/first-announcement-not-at-counter-0", Desc: fmt.Sprintf("no first user was handed the initial chain key (lowest counter %d)", as[best].ck.Counter)}
				}
			}
			// every envelope opens at a receiver that registered the chain key before the first send
			for gi, g := range w.gs {
				if err := w.R.st.RegisterChainKey(context.Background(), g, w.S.md(g).Device(), w.anns[gi]); err != nil {
					return o, &vsync.Verdict{Sig: "HARNESS/c09-register", Desc: err.Error()}
				}
			}
			for i, env := range w.envs {
				g := w.gs[w.envGroup[i]]
				if r := w.R.open(g, env); !r.ok {
					return o, &vsync.Verdict{Sig: "C09/envelope-does-not-open", Desc: fmt.Sprintf("envelope %s does not open at a receiver: %s", order[i], r.err)}
				}
			}
			return o, nil
		},
	}
}

func TestVerifC09(t *testing.T) {
	rep := vrep.New("C09")
	defer func() {
		if err := rep.Finish(); err != nil {
			t.Fatal(err)
		}
		if rep.NViolations() > 0 {
			t.Fail()
		}
	}()
	seed := vrep.Seed()
	var scs []vsync.Scenario
	add := func(sc c09Scenario) { scs = append(scs, c09Scen(seed, sc)) }
	for _, kind := range []string{"multimember", "contact", "account"} {
		add(c09Scenario{Kind: kind, Senders: 2, Msgs: 1, Groups: 1})
	}
	add(c09Scenario{Kind: "multimember", Senders: 2, Msgs: 2, Groups: 1})
	add(c09Scenario{Kind: "multimember", Senders: 3, Msgs: 1, Groups: 1})
	add(c09Scenario{Kind: "contact", Senders: 2, Msgs: 2, Groups: 2})
	add(c09Scenario{Kind: "multimember", Senders: 2, Msgs: 1, Groups: 1, Side: "announce"})
	add(c09Scenario{Kind: "multimember", Senders: 2, Msgs: 1, Groups: 1, Side: "open-own"})
	add(c09Scenario{Kind: "multimember", Senders: 1, Msgs: 2, Groups: 1, Side: "push-own"})
	add(c09Scenario{Kind: "multimember", Senders: 2, Msgs: 1, Groups: 1, Side: "first-use"})
	add(c09Scenario{Kind: "contact", Senders: 2, Msgs: 1, Groups: 1, Side: "first-use"})
	bound, budget := 2, 5*time.Minute
	if vrep.Thorough() {
		bound, budget = 3, 25*time.Minute
		add(c09Scenario{Kind: "account", Senders: 3, Msgs: 2, Groups: 1})
		add(c09Scenario{Kind: "account", Senders: 3, Msgs: 1, Groups: 1, Side: "first-use"})
	}
	vsync.ExploreScenarios(rep, "seal", scs, bound, 3000, budget)
	if sh := os.Getenv("VERIF_SHARD"); (sh == "" || strings.HasPrefix(sh, "0/")) && os.Getenv("VERIF_REPLAY") == "" && os.Getenv("VERIF_RACE_PASS") == "" {
		c09Faults(rep, seed)
	}
}

// c09Faults: one transient storage fault during a send, then two more sends (no scheduler: sequential). For every
// datastore operation SealEnvelope performs, that one operation fails. The envelopes the device hands out, before,
// during and after the fault, must still carry distinct gap-free counters, the stored counter must not go back, and
// every envelope handed out must open at a receiver.
func c09Faults(rep *vrep.Report, seed int64) {
	ctx := context.Background()
	for _, batched := range []bool{false, true} {
		for _, kind := range []string{"multimember", "contact", "account"} {
			S := newParty(seed, "A", "1", 2, 2, batched)
			gs := c09Groups(seed, c09Scenario{Kind: kind, Groups: 1}, S)
			g := gs[0]
			R := newParty(seed, map[string]string{"account": "A", "contact": "B", "multimember": "B"}[kind], "r", 16, 2, false)
			ann := S.announce(g, R.md(g).Member())
			first := S.seal(g, []byte("m1"))
			n := 0
			dry := S.cloneParty()
			dry.ds.fail = func(op, key string) error { n++; return nil }
			dry.seal(g, []byte("x"))
			for i := 0; i < n; i++ {
				P := S.cloneParty()
				cnt := 0
				var fop string
				var written []uint64
				P.ds.onPut = func(key string, val []byte) {
					if strings.HasPrefix(key, "/"+dsNamespaceChainKeyForDeviceOnGroup+"/") {
						ck := &protocoltypes.DeviceChainKey{}
						if proto.Unmarshal(val, ck) == nil {
							written = append(written, ck.Counter)
						}
					}
				}
				P.ds.fail = func(op, key string) error {
					cnt++
					if cnt-1 == i {
						fop = op + " " + key
						return fmt.Errorf("injected: database is locked")
					}
					return nil
				}
				envs := [][]byte{first}
				msg, _ := protoMarshalEncrypted([]byte("during-fault"))
				env, err := P.st.SealEnvelope(ctx, g, msg)
				P.ds.fail = nil
				if err == nil {
					envs = append(envs, env)
				}
				var sealErrs []string
				for j := 0; j < 2; j++ {
					m2, _ := protoMarshalEncrypted([]byte(fmt.Sprintf("after-%d", j)))
					e2, err2 := P.st.SealEnvelope(ctx, g, m2)
					if err2 != nil {
						sealErrs = append(sealErrs, err2.Error())
						continue
					}
					envs = append(envs, e2)
				}
				rep.AddTransitions(1)
				c := map[string]interface{}{"group": kind, "batched": batched, "fault_at": i, "op": fop}
				where := fmt.Sprintf("%s group (batched=%v), datastore operation %d of %d of SealEnvelope (%s) fails once", kind, batched, i, n, fop)
				if len(sealErrs) > 0 {
					rep.Violation("C09/send-fails-after-storage-fault", where+": later sends fail although the fault has gone: "+strings.Join(sealErrs, "; "), c)
					continue
				}
				var ctrs []uint64
				for _, e := range envs {
					_, h, herr := P.st.OpenEnvelopeHeaders(e, g)
					must(herr)
					ctrs = append(ctrs, h.Counter)
				}
				cls := "ok"
				for x, ctr := range ctrs {
					if ctr != uint64(x+1) {
						cls = "counters-not-gap-free"
					}
					for _, other := range ctrs[:x] {
						if other == ctr {
							cls = "counter-reused"
						}
					}
				}
				for x := 1; x < len(written); x++ {
					if written[x] < written[x-1] {
						cls = "chain-counter-decreased"
					}
				}
				if cls == "ok" {
					Rc := R.cloneParty()
					must(Rc.st.RegisterChainKey(ctx, g, S.md(g).Device(), ann))
					for x, e := range envs {
						if r := Rc.open(g, e); !r.ok {
							cls = "envelope-does-not-open"
							where += fmt.Sprintf("; envelope with counter %d: %s", ctrs[x], r.err)
							break
						}
					}
				}
				rep.Eval(fmt.Sprintf("fault/%s/%s/faulted-send-ok=%v/%s", kind, strings.SplitN(fop, " ", 2)[0], err == nil, cls))
				if cls != "ok" {
					rep.Violation("C09/"+cls+"-after-storage-fault", fmt.Sprintf("%s: the envelopes handed out carry counters %v, chain-key counters written %v", where, ctrs, written), c)
				}
			}
			rep.Sample(map[string]interface{}{"part": "one storage fault during a send", "group": kind, "batched": batched, "datastore_operations": n})
		}
	}
}
