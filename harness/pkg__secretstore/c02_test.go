//go:build verif

package secretstore

import (
	"bytes"
	"context"
	"fmt"
	"sort"
	"strings"
	"testing"

	"berty.tech/weshnet/v2/internal/zzverif/vrep"
	"berty.tech/weshnet/v2/pkg/protocoltypes"
)

// c02Sender is one sending device with its n sealed envelopes and the announcements taken after 0..n sends.
type c02Sender struct {
	p    *party
	envs [][]byte // envs[i] has counter i+1
	pay  [][]byte
	anns [][]byte // anns[c] = announcement for R taken after c sends (counter c)
	dev  []byte
}

type c02Cfg struct {
	Kind    string `json:"group"`
	W       int    `json:"window"`
	N       int    `json:"messages"`
	C       []int  `json:"registered_at"`
	Senders int    `json:"senders"`
}

type c02Op struct {
	Op     string `json:"op"` // open | reg | regold
	Sender int    `json:"sender"`
	K      int    `json:"k"` // message counter for open, announcement counter for reg/regold
}

func (o c02Op) String() string { return fmt.Sprintf("%s(s%d,%d)", o.Op, o.Sender, o.K) }

// refState is the reference model of the receiver for one sender.
type refSender struct {
	registered bool
	c          int
	opened     map[int]bool
}

func c02Build(seed int64, cfg c02Cfg) (*protocoltypes.Group, *party, []*c02Sender) {
	return c02BuildN(seed, cfg, 2)
}

func c02BuildN(seed int64, cfg c02Cfg, refs int) (*protocoltypes.Group, *party, []*c02Sender) {
	var g *protocoltypes.Group
	var R *party
	mk := func(a, d string) *party { return newParty(seed, a, d, cfg.W, refs, false) }
	var ss []*party
	switch cfg.Kind {
	case "account":
		R = mk("A", "r")
		ss = []*party{mk("A", "1"), mk("A", "2")}
		g, _, _ = R.st.GetGroupForAccount()
	case "contact":
		R = mk("B", "r")
		ss = []*party{mk("A", "1"), mk("A", "2")}
		var err error
		g, err = R.st.GetGroupForContact(ss[0].accountPub())
		must(err)
	default:
		R = mk("B", "r")
		ss = []*party{mk("A", "1"), mk("C", "1")}
		g = detGroupMultiMember(seed, "G1")
	}
	_ = R.announce(g, R.md(g).Member())
	var out []*c02Sender
	for si := 0; si < cfg.Senders; si++ {
		s := &c02Sender{p: ss[si], dev: mustBytes(ss[si].md(g).Device().Raw())}
		rm := R.md(g).Member()
		s.anns = append(s.anns, s.p.announce(g, rm))
		for i := 1; i <= cfg.N; i++ {
			pl := []byte(fmt.Sprintf("msg-%d-%d", si, i))
			s.pay = append(s.pay, pl)
			s.envs = append(s.envs, s.p.seal(g, pl))
			s.anns = append(s.anns, s.p.announce(g, rm))
		}
		out = append(out, s)
	}
	return g, R, out
}

func c02StoredCounter(R *party, g *protocoltypes.Group, s *c02Sender) int64 {
	ck, err := R.st.getDeviceChainKeyForGroupAndDevice(context.Background(), groupPK(g), s.p.md(g).Device())
	if err != nil {
		return -1
	}
	return int64(ck.Counter)
}

// c02Explore runs the explicit-state search for one configuration.
func c02Explore(rep *vrep.Report, seed int64, cfg c02Cfg) {
	g, R0, senders := c02Build(seed, cfg)
	type node struct {
		ds   *memDS
		ref  []refSender
		hist []c02Op
	}
	canonRef := func(ref []refSender) string {
		var sb strings.Builder
		for _, r := range ref {
			ks := []int{}
			for k := range r.opened {
				ks = append(ks, k)
			}
			sort.Ints(ks)
			fmt.Fprintf(&sb, "%v/%d/%v;", r.registered, r.c, ks)
		}
		return sb.String()
	}
	init := node{ds: R0.ds, ref: make([]refSender, len(senders))}
	for i := range init.ref {
		init.ref[i].opened = map[int]bool{}
	}
	seen := map[string]string{init.ds.dump(): canonRef(init.ref)}
	frontier := []node{init}
	var ops []c02Op
	for si := range senders {
		for k := 1; k <= cfg.N; k++ {
			ops = append(ops, c02Op{"open", si, k})
		}
		ops = append(ops, c02Op{"reg", si, cfg.C[si]})
		for c := 0; c < cfg.C[si]; c++ {
			ops = append(ops, c02Op{"regold", si, c})
		}
	}
	viol := func(kind string, n node, op c02Op, desc string) {
		rep.Violation("C02/"+kind, fmt.Sprintf("cfg=%+v after %v then %v: %s", cfg, n.hist, op, desc),
			map[string]interface{}{"cfg": cfg, "history": append(append([]c02Op{}, n.hist...), op)})
	}
	var states, transitions int64 = 1, 0
	maxDepth := 0
	var lastHist []c02Op
	for len(frontier) > 0 {
		if rep.NViolations() > 0 {
			// something is already reported for this run: no need to explore the rest of a state space that a
			// broken store may have made much larger
			rep.NotExhaustive("exploration stopped after the first violations")
			break
		}
		n := frontier[0]
		frontier = frontier[1:]
		if len(n.hist) > maxDepth {
			maxDepth = len(n.hist)
		}
		for _, op := range ops {
			ref := n.ref[op.Sender]
			if op.Op == "regold" && !ref.registered {
				continue // an older announcement first would simply be the registration at that counter (another configuration)
			}
			ds := n.ds.clone()
			R := R0.onDS(ds)
			s := senders[op.Sender]
			before := n.ds.dump()
			ctrBefore := c02StoredCounter(R, g, s)
			newRef := make([]refSender, len(n.ref))
			for i, r := range n.ref {
				newRef[i] = refSender{r.registered, r.c, map[int]bool{}}
				for k := range r.opened {
					newRef[i].opened[k] = true
				}
			}
			transitions++
			switch op.Op {
			case "open":
				res := R.open(g, s.envs[op.K-1])
				mustOK := ref.opened[op.K] || (ref.registered && ref.c < op.K && op.K <= ref.c+cfg.W+len(ref.opened))
				mustFail := !ref.registered || op.K <= ref.c
				cls := "open-beyond-window"
				if mustOK {
					cls = "open-must-succeed"
					if ref.opened[op.K] {
						cls = "reopen"
					}
				} else if mustFail {
					cls = "open-must-fail"
				}
				rep.Eval(fmt.Sprintf("%s/%s/ok=%v", cfg.Kind, cls, res.ok))
				if mustOK && !res.ok {
					viol("not-openable", n, op, "message in the window (or already opened) was refused: "+res.err)
				}
				if mustFail && res.ok {
					viol("opened-before-registration-counter", n, op, "a message sealed at or before the registered counter (or before any registration) opened")
				}
				if res.ok {
					if !bytes.Equal(res.payload, s.pay[op.K-1]) || !bytes.Equal(res.device, s.dev) || res.counter != uint64(op.K) {
						viol("wrong-content", n, op, fmt.Sprintf("opened to payload=%q dev=%x counter=%d", res.payload, res.device, res.counter))
					}
					newRef[op.Sender].opened[op.K] = true
				} else if ds.dump() != before {
					viol("failed-open-changed-state", n, op, "a refused open modified the datastore")
				}
				if res.ok && ref.opened[op.K] && ds.dump() != before {
					viol("reopen-changed-state", n, op, "re-opening an opened message modified the datastore")
				}
			case "reg", "regold":
				err := R.st.RegisterChainKey(context.Background(), g, s.p.md(g).Device(), s.anns[op.K])
				rep.Eval(fmt.Sprintf("%s/%s/registered-before=%v/err=%v", cfg.Kind, op.Op, ref.registered, err != nil))
				if err != nil {
					viol("register-error", n, op, err.Error())
				}
				if ref.registered {
					if ds.dump() != before {
						viol("reregistration-changed-state", n, op, "registering the same/an older announcement again modified the datastore")
					}
				} else {
					newRef[op.Sender].registered = true
					newRef[op.Sender].c = op.K
				}
			}
			if ctrAfter := c02StoredCounter(R, g, s); ctrAfter < ctrBefore {
				viol("chain-counter-decreased", n, op, fmt.Sprintf("stored chain key counter %d -> %d", ctrBefore, ctrAfter))
			}
			key := ds.dump()
			cr := canonRef(newRef)
			if prev, ok := seen[key]; ok {
				if prev != cr {
					// two histories with different reference states reached the same datastore: the reference is then
					// a function of the history only; keep exploring from the first one (futures depend on the datastore).
					rep.Add("merged_states_with_different_reference", 1)
				}
				continue
			}
			seen[key] = cr
			states++
			nh := append(append([]c02Op{}, n.hist...), op)
			lastHist = nh
			frontier = append(frontier, node{ds: ds, ref: newRef, hist: nh})
		}
	}
	rep.AddStates(states)
	rep.AddTransitions(transitions)
	rep.AddTraces(transitions)
	rep.Sample(map[string]interface{}{"cfg": cfg, "states": states, "transitions": transitions, "max_depth": maxDepth, "deepest_history": fmt.Sprint(lastHist)})
	if int64(maxDepth) > extraInt(rep, "max_depth") {
		rep.Set("max_depth", int64(maxDepth))
	}
}

func extraInt(rep *vrep.Report, k string) int64 {
	v, _ := rep.Extra[k].(int64)
	return v
}

func TestVerifC02(t *testing.T) {
	rep := vrep.New("C02")
	defer func() {
		if err := rep.Finish(); err != nil {
			t.Fatal(err)
		}
		if rep.NViolations() > 0 {
			t.Fail()
		}
	}()
	seed := vrep.Seed()
	maxW, maxN, maxN2 := 3, 5, 3
	if vrep.Thorough() {
		maxW, maxN, maxN2 = 4, 7, 4
	}
	var cfgs []c02Cfg
	for _, kind := range []string{"multimember", "contact", "account"} {
		for w := 1; w <= maxW; w++ {
			for c := 0; c <= 2; c++ {
				n := maxN
				if kind != "multimember" && !vrep.Thorough() {
					n = 4
				}
				cfgs = append(cfgs, c02Cfg{Kind: kind, W: w, N: n, C: []int{c}, Senders: 1})
			}
		}
	}
	for w := 1; w <= maxW; w++ {
		for _, cs := range [][]int{{0, 0}, {1, 0}, {2, 1}} {
			cfgs = append(cfgs, c02Cfg{Kind: "multimember", W: w, N: maxN2, C: cs, Senders: 2})
		}
	}
	for _, cfg := range cfgs {
		c02Explore(rep, seed, cfg)
	}
	rep.Set("configurations", int64(len(cfgs)))
	c02BoundaryWalk(rep, seed)
	c02Faults(rep, seed)
	c02TwoGroups(rep, seed)
}

// c02BoundaryWalk: scripted boundary cases with the default window of 100 (not enumerated; stated in the evidence).
func c02BoundaryWalk(rep *vrep.Report, seed int64) {
	cfg := c02Cfg{Kind: "multimember", W: 100, N: 103, C: []int{1}, Senders: 1}
	g, R, ss := c02Build(seed, cfg)
	s := ss[0]
	must(R.st.RegisterChainKey(context.Background(), g, s.p.md(g).Device(), s.anns[1]))
	step := func(name string, k int, want bool) {
		res := R.open(g, s.envs[k-1])
		rep.Eval(fmt.Sprintf("w100/%s/ok=%v", name, res.ok))
		if want && !res.ok {
			rep.Violation("C02/w100-not-openable", fmt.Sprintf("default window: %s k=%d refused: %s", name, k, res.err), map[string]interface{}{"walk": name, "k": k})
		}
		if res.ok && (!bytes.Equal(res.payload, s.pay[k-1]) || res.counter != uint64(k)) {
			rep.Violation("C02/wrong-content", fmt.Sprintf("default window: %s k=%d wrong content", name, k), map[string]interface{}{"walk": name, "k": k})
		}
	}
	stepFail := func(name string, k int) {
		res := R.open(g, s.envs[k-1])
		rep.Eval(fmt.Sprintf("w100/%s/ok=%v", name, res.ok))
		if res.ok {
			rep.Violation("C02/opened-before-registration-counter", fmt.Sprintf("default window: %s k=%d opened", name, k), map[string]interface{}{"walk": name, "k": k})
		}
	}
	stepFail("at-registered-counter", 1)
	step("last-of-window-first", 101, true) // c=1, w=100: 2..101 openable
	step("window-slid-by-one", 102, true)   // one opened: ..102
	step("first-of-window", 2, true)
	step("window-slid-by-two", 103, true)
	step("reopen-last", 101, true)
	step("reopen-first", 2, true)
	step("middle", 50, true)
	stepFail("at-registered-counter-again", 1)
	rep.Note("default window 100 is covered by one scripted boundary walk only (9 steps), not enumerated")
}

// c02Faults: one transient storage fault during an open, then the retry the property speaks of. For every datastore
// operation an open (or a registration) performs, that one operation fails; whatever the faulted call returned, a
// successful open must carry the original payload, and after the fault has gone the retried message and every
// message the reference calls openable must open.
func c02Faults(rep *vrep.Report, seed int64) {
	ctx := context.Background()
	for _, batched := range []bool{false, true} {
		cfg := c02Cfg{Kind: "multimember", W: 2, N: 5, C: []int{0}, Senders: 1}
		g, R0, ss := c02Build(seed, cfg)
		s := ss[0]
		if batched {
			b := newMemDS(true)
			b.m = R0.ds.clone().m
			R0 = R0.onDS(b)
		}
		type base struct {
			name   string
			prep   func(R *party)
			opened int
		}
		bases := []base{
			{"registered", func(R *party) { must(R.st.RegisterChainKey(ctx, g, s.p.md(g).Device(), s.anns[0])) }, 0},
			{"registered, 1 opened", func(R *party) {
				must(R.st.RegisterChainKey(ctx, g, s.p.md(g).Device(), s.anns[0]))
				R.open(g, s.envs[0])
			}, 1},
		}
		for _, b := range bases {
			for _, target := range []string{"open(1)", "open(2)", "open(3)", "register"} {
				run := func(R *party) (ok bool, k int) {
					switch target {
					case "register":
						return R.st.RegisterChainKey(ctx, g, s.p.md(g).Device(), s.anns[0]) == nil, 0
					}
					fmt.Sscanf(target, "open(%d)", &k)
					r := R.open(g, s.envs[k-1])
					if r.ok && (!bytes.Equal(r.payload, s.pay[k-1]) || r.counter != uint64(k)) {
						rep.Violation("C02/wrong-content", fmt.Sprintf("%s under a storage fault returned other content", target), map[string]interface{}{"target": target})
					}
					return r.ok, k
				}
				if target == "open(3)" && b.opened == 0 {
					continue // beyond the window in this state
				}
				S0 := R0.cloneParty()
				b.prep(S0)
				n := 0
				dry := S0.cloneParty()
				dry.ds.fail = func(op, key string) error { n++; return nil }
				run(dry)
				for i := 0; i < n; i++ {
					P := S0.cloneParty()
					cnt := 0
					var failedOp string
					P.ds.fail = func(op, key string) error {
						cnt++
						if cnt-1 == i {
							failedOp = op + " " + key
							return fmt.Errorf("injected: database is locked")
						}
						return nil
					}
					ok1, k := run(P)
					P.ds.fail = nil
					rep.AddTransitions(1)
					// the fault is gone: retry, then everything the reference calls openable
					opened := map[int]bool{}
					if b.opened == 1 {
						opened[1] = true
					}
					cls := "ok"
					var firstBad string
					try := func(j int) {
						r := P.open(g, s.envs[j-1])
						if !r.ok {
							cls = "not-openable-after-fault"
							if firstBad == "" {
								firstBad = fmt.Sprintf("message %d: %s", j, r.err)
							}
							return
						}
						if !bytes.Equal(r.payload, s.pay[j-1]) {
							cls = "wrong-content"
						}
						opened[j] = true
					}
					if k > 0 {
						try(k)
					}
					for j := 1; j <= cfg.N && j <= cfg.W+len(opened); j++ {
						try(j)
					}
					rep.Eval(fmt.Sprintf("fault/%s/%s/%s/faulted-call-ok=%v/%s", b.name, target, strings.SplitN(failedOp, " ", 2)[0], ok1, cls))
					if cls != "ok" {
						rep.Violation("C02/"+cls, fmt.Sprintf("state '%s' (batched=%v): datastore operation %d of %d of %s (%s) fails once; after the fault has gone: %s (opened so far %v)", b.name, batched, i, n, target, failedOp, firstBad, opened), map[string]interface{}{"state": b.name, "target": target, "fault_at": i, "batched": batched})
					}
				}
			}
		}
		rep.Sample(map[string]interface{}{"part": "one storage fault, then retry", "batched": batched, "window": cfg.W})
	}
}

// c02TwoGroups: one sender device known to the receiver in two groups (the account group and a contact group of a
// multi-device account share the device key, and both chains start at counter 0). Explicit-state BFS over register /
// open in either group: each group's ratchet follows the reference on its own, whatever happens in the other.
func c02TwoGroups(rep *vrep.Report, seed int64) {
	ctx := context.Background()
	for w := 1; w <= 2; w++ {
		const n = 3
		mk := func(a, d string) *party { return newParty(seed, a, d, w, 2, false) }
		R0, S := mk("A", "2"), mk("A", "1")
		gAcc, _, err := S.st.GetGroupForAccount()
		must(err)
		gAB, err := S.st.GetGroupForContact(mk("B", "1").accountPub())
		must(err)
		type lane struct {
			g    *protocoltypes.Group
			ann  []byte
			envs [][]byte
			pay  [][]byte
		}
		var lanes []*lane
		for _, g := range []*protocoltypes.Group{gAcc, gAB} {
			_ = R0.announce(g, R0.md(g).Member())
			l := &lane{g: g, ann: S.announce(g, R0.md(g).Member())}
			for i := 1; i <= n; i++ {
				pl := []byte(fmt.Sprintf("two-groups-%x-%d", g.PublicKey[:2], i))
				l.pay = append(l.pay, pl)
				l.envs = append(l.envs, S.seal(g, pl))
			}
			lanes = append(lanes, l)
		}
		type ref struct {
			reg    bool
			opened map[int]bool
		}
		type node struct {
			ds   *memDS
			refs [2]ref
			hist []string
		}
		cloneRefs := func(r [2]ref) [2]ref {
			var o [2]ref
			for i := range r {
				o[i] = ref{r[i].reg, map[int]bool{}}
				for k := range r[i].opened {
					o[i].opened[k] = true
				}
			}
			return o
		}
		init := node{ds: R0.ds, refs: [2]ref{{false, map[int]bool{}}, {false, map[int]bool{}}}}
		seen := map[string]bool{init.ds.dump(): true}
		frontier := []node{init}
		var states, transitions int64 = 1, 0
		for len(frontier) > 0 {
			if rep.NViolations() > 0 {
				rep.NotExhaustive("exploration stopped after the first violations")
				break
			}
			nd := frontier[0]
			frontier = frontier[1:]
			for li, l := range lanes {
				for k := 0; k <= n; k++ {
					ds := nd.ds.clone()
					R := R0.onDS(ds)
					refs := cloneRefs(nd.refs)
					op := fmt.Sprintf("open%d(%d)", li, k)
					transitions++
					if k == 0 {
						op = fmt.Sprintf("reg%d", li)
						if err := R.st.RegisterChainKey(ctx, l.g, S.md(l.g).Device(), l.ann); err != nil {
							rep.Violation("C02/register-error", fmt.Sprintf("two groups, window %d, after %v: %s: %v", w, nd.hist, op, err), map[string]interface{}{"window": w, "history": append(append([]string{}, nd.hist...), op)})
						}
						refs[li].reg = true
					} else {
						r := R.open(l.g, l.envs[k-1])
						cur := nd.refs[li]
						must := cur.reg && (cur.opened[k] || k <= w+len(cur.opened))
						rep.Eval(fmt.Sprintf("two-groups/open/must=%v/ok=%v", must, r.ok))
						if must && !r.ok {
							rep.Violation("C02/not-openable", fmt.Sprintf("two groups sharing the sender's device key, window %d, after %v: %s refused although the reference of that group calls it openable: %s", w, nd.hist, op, r.err), map[string]interface{}{"window": w, "history": append(append([]string{}, nd.hist...), op)})
						}
						if r.ok && (!bytes.Equal(r.payload, l.pay[k-1]) || r.counter != uint64(k)) {
							rep.Violation("C02/wrong-content", fmt.Sprintf("two groups, window %d, after %v: %s opened to %q counter %d", w, nd.hist, op, r.payload, r.counter), map[string]interface{}{"window": w, "history": append(append([]string{}, nd.hist...), op)})
						}
						if r.ok {
							refs[li].opened[k] = true
						}
					}
					key := ds.dump()
					if seen[key] {
						continue
					}
					seen[key] = true
					states++
					frontier = append(frontier, node{ds: ds, refs: refs, hist: append(append([]string{}, nd.hist...), op)})
				}
			}
		}
		rep.AddStates(states)
		rep.AddTransitions(transitions)
		rep.Sample(map[string]interface{}{"part": "one sender device in two groups", "window": w, "messages_per_group": n, "states": states, "transitions": transitions})
	}
}
