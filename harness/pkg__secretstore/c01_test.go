//go:build verif

package secretstore

import (
	"bytes"
	"context"
	"fmt"
	"testing"

	"golang.org/x/crypto/nacl/secretbox"
	"google.golang.org/protobuf/proto"

	"berty.tech/weshnet/v2/internal/zzverif/vrep"
	"berty.tech/weshnet/v2/pkg/protocoltypes"
)

// c01World is one group of a given type with a sender S, a receiver R and a fellow member F
// (F registered S's chain key, so it can derive S's message keys, but it does not hold S's device key).
type c01World struct {
	kind    string
	g       *protocoltypes.Group
	S, R, F *party
}

func c01Worlds(seed int64, w int) []*c01World {
	var out []*c01World
	// account group: devices of one account
	{
		S := newParty(seed, "A", "1", w, 2, false)
		R := newParty(seed, "A", "2", w, 2, false)
		F := newParty(seed, "A", "3", w, 2, false)
		g, _, err := S.st.GetGroupForAccount()
		must(err)
		out = append(out, &c01World{kind: "account", g: g, S: S, R: R, F: F})
	}
	// contact group A<->B: sender A1, receiver B1, fellow: A2 (second device of A)
	{
		S := newParty(seed, "A", "1", w, 2, false)
		R := newParty(seed, "B", "1", w, 2, false)
		F := newParty(seed, "B", "2", w, 2, false)
		g, err := S.st.GetGroupForContact(R.accountPub())
		must(err)
		out = append(out, &c01World{kind: "contact", g: g, S: S, R: R, F: F})
	}
	// multi-member group
	{
		S := newParty(seed, "A", "1", w, 2, false)
		R := newParty(seed, "B", "1", w, 2, false)
		F := newParty(seed, "C", "1", w, 2, false)
		g := detGroupMultiMember(seed, "G1")
		out = append(out, &c01World{kind: "multimember", g: g, S: S, R: R, F: F})
	}
	for _, wd := range out {
		ctx := context.Background()
		// every party creates its own chain key, R and F register S's announcement (counter 0)
		for _, p := range []*party{wd.S, wd.R, wd.F} {
			_ = p.announce(wd.g, p.md(wd.g).Member())
		}
		must(wd.R.st.RegisterChainKey(ctx, wd.g, wd.S.md(wd.g).Device(), wd.S.announce(wd.g, wd.R.md(wd.g).Member())))
		must(wd.F.st.RegisterChainKey(ctx, wd.g, wd.S.md(wd.g).Device(), wd.S.announce(wd.g, wd.F.md(wd.g).Member())))
		// R also knows F's chain key (so "re-attributed to F" has a key to be tried with)
		must(wd.R.st.RegisterChainKey(ctx, wd.g, wd.F.md(wd.g).Device(), wd.F.announce(wd.g, wd.R.md(wd.g).Member())))
	}
	return out
}

type c01Case struct {
	World   string `json:"world"`
	Kind    string `json:"kind"`
	Detail  string `json:"detail"`
	Outcome string `json:"outcome"`
}

// reboxHeaders builds an envelope from clear headers, as any member (holder of the group secret) can.
func reboxHeaders(g *protocoltypes.Group, h *protocoltypes.MessageHeaders, message []byte, nonce []byte) []byte {
	hb, err := proto.Marshal(h)
	must(err)
	var n [24]byte
	copy(n[:], nonce)
	boxed := secretbox.Seal(nil, hb, &n, g.GetSharedSecret())
	return mustBytes(proto.Marshal(&protocoltypes.MessageEnvelope{MessageHeaders: boxed, Message: message, Nonce: n[:]}))
}

func TestVerifC01(t *testing.T) {
	rep := vrep.New("C01")
	defer func() {
		if err := rep.Finish(); err != nil {
			t.Fatal(err)
		}
		if rep.NViolations() > 0 {
			t.Fail()
		}
	}()
	seed := vrep.Seed()
	thorough := vrep.Thorough()

	sizes := []int{0, 1, 2, 15, 16, 17, 255, 256, 4096, 65535, 65536}
	flipSizes := []int{0, 1, 17}
	if thorough {
		flipSizes = []int{0, 1, 17, 256}
	}

	check := func(wd *c01World, kind, detail string, R *party, g *protocoltypes.Group, data []byte, honest *openResult, mustFail bool) {
		res := R.open(g, data)
		// a log entry is read more than once (queue retries, listings): the verdict must not change on a re-read
		for again := 0; again < 2 && !res.ok; again++ {
			if r2 := R.open(g, data); r2.ok {
				res = r2
				kind += "-on-reread"
			}
		}
		outcome := "rejected"
		if res.ok {
			outcome = "opened-identical"
			if honest == nil || !res.same(*honest) {
				outcome = "opened-different"
			}
		}
		if len(res.err) >= 5 && res.err[:5] == "PANIC" {
			outcome = "panic"
		}
		rep.Eval(wd.kind + "/" + kind + "/" + outcome + "/" + res.err)
		bad := outcome == "opened-different" || outcome == "panic" || (mustFail && res.ok)
		if bad {
			rep.Violation("C01/"+kind+"/"+outcome, fmt.Sprintf("world=%s %s: %s (err=%q payload=%x dev=%x ctr=%d)", wd.kind, kind, detail, res.err, trunc(res.payload), res.device, res.counter),
				c01Case{World: wd.kind, Kind: kind, Detail: detail, Outcome: outcome})
		}
	}

	for _, wd := range c01Worlds(seed, 4) {
		// (i) honest round trips over the payload alphabet, counters 1.. (one fresh world per size class to keep counters small)
		{
			hw := c01WorldOf(seed, wd.kind, 100)
			k := uint64(0)
			for _, pl := range payloadAlphabet(sizes) {
				k++
				data := hw.S.seal(hw.g, pl)
				for _, rcv := range []*party{hw.R, hw.F} {
					res := rcv.open(hw.g, data)
					okk := res.ok && bytes.Equal(res.payload, pl) && bytes.Equal(res.device, mustBytes(hw.S.md(hw.g).Device().Raw())) && res.counter == k
					rep.Eval(fmt.Sprintf("%s/honest/%v", wd.kind, okk))
					if !okk {
						rep.Violation("C01/honest", fmt.Sprintf("world=%s honest message size=%d counter=%d not opened to the original: %+v", wd.kind, len(pl), k, res.err),
							c01Case{World: wd.kind, Kind: "honest", Detail: fmt.Sprintf("size=%d counter=%d", len(pl), k)})
					}
					// re-open gives the same
					res2 := rcv.open(hw.g, data)
					if !res2.same(res) {
						rep.Violation("C01/honest-reopen", fmt.Sprintf("world=%s re-open differs size=%d", wd.kind, len(pl)), c01Case{World: wd.kind, Kind: "honest-reopen"})
					}
				}
			}
			// a cleartext of zero bytes (what an empty application payload without metadata marshals to)
			for _, raw := range [][]byte{nil, {}} {
				k++
				data, err := hw.S.st.SealEnvelope(context.Background(), hw.g, raw)
				must(err)
				for _, rcv := range []*party{hw.R, hw.F} {
					res := rcv.open(hw.g, data)
					okk := res.ok && len(res.payload) == 0 && res.counter == k
					rep.Eval(fmt.Sprintf("%s/honest-empty-cleartext/%v", wd.kind, okk))
					if !okk {
						rep.Violation("C01/honest", fmt.Sprintf("world=%s honest message with an empty cleartext (counter %d) not opened to the original: %s", wd.kind, k, res.err), c01Case{World: wd.kind, Kind: "honest", Detail: fmt.Sprintf("empty cleartext counter=%d", k)})
					}
				}
			}
			rep.Sample(map[string]interface{}{"kind": "honest", "world": wd.kind, "payload_sizes": sizes, "receivers": 2})
		}

		// recorded envelopes: S counters 1,2 ; F counters 1,2 ; one of another group of the same type, one of another type
		pay := func(s string) []byte { return []byte("payload-" + s) }
		e := map[string][]byte{}
		e["S1"] = wd.S.seal(wd.g, pay("S1"))
		e["S2"] = wd.S.seal(wd.g, pay("S2"))
		e["F1"] = wd.F.seal(wd.g, pay("F1"))
		e["F2"] = wd.F.seal(wd.g, pay("F2"))
		og := detGroupMultiMember(seed, "other-"+wd.kind)
		_ = wd.S.announce(og, wd.S.md(og).Member())
		must(wd.R.st.RegisterChainKey(context.Background(), og, wd.S.md(og).Device(), wd.S.announce(og, wd.R.md(og).Member())))
		e["O1"] = wd.S.seal(og, pay("O1"))
		names := []string{"S1", "S2", "F1", "F2", "O1"}
		honest := map[string]openResult{}
		// honest results computed on a clone so that R's state is still "nothing opened"
		{
			Rc := wd.R.cloneParty()
			for _, n := range names[:4] {
				honest[n] = Rc.open(wd.g, e[n])
				if !honest[n].ok {
					rep.Violation("C01/honest", "recorded envelope "+n+" does not open: "+honest[n].err, c01Case{World: wd.kind, Kind: "honest", Detail: n})
				}
			}
			honest["O1"] = Rc.open(og, e["O1"])
		}

		// (ii) every single-bit flip of the complete envelope, on a clone of R per flip (state: nothing opened)
		// and on a receiver that has already opened the message (the stored-key-by-CID path)
		for _, sz := range flipSizes {
			fw := c01WorldOf(seed, wd.kind, 4)
			pl := payloadAlphabet([]int{sz})
			data := fw.S.seal(fw.g, pl[len(pl)-1])
			h := fw.R.cloneParty().open(fw.g, data)
			Ropened := fw.R.cloneParty()
			_ = Ropened.open(fw.g, data)
			for bit := 0; bit < len(data)*8; bit++ {
				mut := append([]byte(nil), data...)
				mut[bit/8] ^= 1 << uint(bit%8)
				check(wd, "bitflip", fmt.Sprintf("size=%d bit=%d", sz, bit), fw.R.cloneParty(), fw.g, mut, &h, false)
				check(wd, "bitflip-after-open", fmt.Sprintf("size=%d bit=%d", sz, bit), Ropened.cloneParty(), fw.g, mut, &h, false)
			}
			rep.Sample(map[string]interface{}{"kind": "bitflip", "world": wd.kind, "payload_size": sz, "envelope_bytes": len(data), "flips": len(data) * 8})
		}

		// (iii) substitution of one of {nonce, boxed headers, boxed payload} between every ordered pair
		parse := func(b []byte) *protocoltypes.MessageEnvelope {
			env := &protocoltypes.MessageEnvelope{}
			must(proto.Unmarshal(b, env))
			return env
		}
		for _, a := range names {
			for _, b := range names {
				if a == b {
					continue
				}
				for _, field := range []string{"nonce", "headers", "message"} {
					ea, eb := parse(e[a]), parse(e[b])
					switch field {
					case "nonce":
						ea.Nonce = eb.Nonce
					case "headers":
						ea.MessageHeaders = eb.MessageHeaders
					case "message":
						ea.Message = eb.Message
					}
					mut := mustBytes(proto.Marshal(ea))
					ha := honest[a]
					g := wd.g
					if a == "O1" {
						g = og
					}
					check(wd, "substitute-"+field, a+"<-"+b, wd.R.cloneParty(), g, mut, &ha, true)
				}
			}
		}

		// (iv) re-attribution: headers re-boxed under the group secret with device / counter / signature of other headers
		clearHeaders := map[string]*protocoltypes.MessageHeaders{}
		for _, n := range names {
			g := wd.g
			if n == "O1" {
				g = og
			}
			_, h, err := wd.R.st.OpenEnvelopeHeaders(e[n], g)
			must(err)
			clearHeaders[n] = h
		}
		for _, a := range names[:4] {
			for _, b := range names {
				if a == b {
					continue
				}
				for mask := 1; mask < 8; mask++ {
					ha := proto.Clone(clearHeaders[a]).(*protocoltypes.MessageHeaders)
					hb := clearHeaders[b]
					if mask&1 != 0 {
						ha.DevicePk = hb.DevicePk
					}
					if mask&2 != 0 {
						ha.Counter = hb.Counter
					}
					if mask&4 != 0 {
						ha.Sig = hb.Sig
					}
					if proto.Equal(ha, clearHeaders[a]) {
						continue
					}
					env := parse(e[a])
					mut := reboxHeaders(wd.g, ha, env.Message, env.Nonce)
					h := honest[a]
					check(wd, fmt.Sprintf("reattribute-mask%d", mask), a+"<-"+b, wd.R.cloneParty(), wd.g, mut, &h, true)
				}
			}
		}
		// counters never sent
		for _, ctr := range []uint64{0, 3, 5, 1 << 63} {
			ha := proto.Clone(clearHeaders["S1"]).(*protocoltypes.MessageHeaders)
			ha.Counter = ctr
			env := parse(e["S1"])
			h := honest["S1"]
			check(wd, "reattribute-counter", fmt.Sprintf("S1 counter=%d", ctr), wd.R.cloneParty(), wd.g, reboxHeaders(wd.g, ha, env.Message, env.Nonce), &h, true)
		}

		// (iv-b) a genuine message re-wrapped as a push payload by a fellow member: same ciphertext and signature, the
		// entry identifier of the genuine entry (a push payload names its entry itself), the counter altered in one bit.
		// On a receiver that has opened the genuine entry the key is found by identifier, so the nonce is what binds
		// the counter: every one of the 64 single-bit alterations must be refused.
		for _, name := range []string{"S1", "S2"} {
			genuine := parse(e[name])
			Ro := wd.R.cloneParty()
			_ = Ro.open(wd.g, e["S1"])
			_ = Ro.open(wd.g, e["S2"])
			for bit := 0; bit < 64; bit++ {
				oos := &protocoltypes.OutOfStoreMessage{Cid: cidOf(e[name]).Bytes(), DevicePk: clearHeaders[name].DevicePk, Counter: clearHeaders[name].Counter ^ (1 << uint(bit)), Sig: clearHeaders[name].Sig, EncryptedPayload: genuine.Message, Nonce: genuine.Nonce}
				for ri, Rx := range []*party{wd.R.cloneParty(), Ro.cloneParty()} {
					_, _, oerr := Rx.st.OutOfStoreMessageOpen(context.Background(), oos, groupPK(wd.g))
					rep.Eval(fmt.Sprintf("%s/push-counter-bitflip/receiver-opened=%v/refused=%v", wd.kind, ri == 1, oerr != nil))
					if oerr == nil {
						rep.Violation("C01/push-reattributed-counter-opened", fmt.Sprintf("world=%s: genuine message %s re-wrapped as a push payload with counter bit %d altered (claimed counter %d, sealed at %d), receiver has opened the genuine entry: %v - delivered under the wrong counter", wd.kind, name, bit, oos.Counter, clearHeaders[name].Counter, ri == 1), c01Case{World: wd.kind, Kind: "push-counter-bitflip", Detail: fmt.Sprintf("%s bit=%d opened=%v", name, bit, ri == 1)})
					}
				}
			}
		}

		// (v) forgery by F: F derives S's message key for counter k and encrypts its own payload
		sDev := wd.S.md(wd.g).Device()
		sDevRaw := mustBytes(sDev.Raw())
		for k := uint64(1); k <= 3; k++ {
			mk, err := wd.F.st.getPrecomputedMessageKey(context.Background(), groupPK(wd.g), sDev, k)
			must(err)
			forged := mustBytes(protoMarshalEncrypted([]byte("forged by F")))
			box := secretbox.Seal(nil, forged, uint64AsNonce(k), (*[32]byte)(mk))
			fmd := wd.F.md(wd.g)
			sigs := map[string][]byte{
				"F-device": mustBytes(fmd.DeviceSign(forged)),
				"F-member": mustBytes(fmd.MemberSign(forged)),
				"copied":   clearHeaders["S1"].Sig,
				"empty":    nil,
				"zero64":   make([]byte, 64),
			}
			if gsk, err := wd.g.GetSigningPrivKey(); err == nil {
				sigs["group-secret-key"] = mustBytes(gsk.Sign(forged))
			}
			for sn, sig := range sigs {
				h := &protocoltypes.MessageHeaders{Counter: k, DevicePk: sDevRaw, Sig: sig}
				mut := reboxHeaders(wd.g, h, box, []byte(fmt.Sprintf("forged-nonce-%d-%s........", k, sn)))
				// both on a receiver that opened nothing and on one that opened S1,S2 honestly
				check(wd, "forge-"+sn, fmt.Sprintf("counter=%d", k), wd.R.cloneParty(), wd.g, mut, nil, true)
				Ro := wd.R.cloneParty()
				_ = Ro.open(wd.g, e["S1"])
				_ = Ro.open(wd.g, e["S2"])
				check(wd, "forge-after-open-"+sn, fmt.Sprintf("counter=%d", k), Ro, wd.g, mut, nil, true)
				// two cooperating steps: F first relays S's GENUINE message k as a push payload that names the entry
				// identifier of the forged envelope (the identifier inside a push payload is chosen by its sender), the
				// receiver opens that push (rightly); then the forged envelope arrives through the log
				if name := fmt.Sprintf("S%d", k); e[name] != nil {
					genuine := parse(e[name])
					relay := &protocoltypes.OutOfStoreMessage{Cid: cidOf(mut).Bytes(), DevicePk: sDevRaw, Counter: k, Sig: clearHeaders[name].Sig, EncryptedPayload: genuine.Message, Nonce: genuine.Nonce}
					Rr := wd.R.cloneParty()
					_, _, rerr := Rr.st.OutOfStoreMessageOpen(context.Background(), relay, groupPK(wd.g))
					rep.Eval(fmt.Sprintf("%s/relayed-genuine-push/opened=%v", wd.kind, rerr == nil))
					check(wd, "forge-after-relayed-push-"+sn, fmt.Sprintf("counter=%d", k), Rr, wd.g, mut, nil, true)
				}
				// the same forgery as a push payload (the out-of-store box is under the group secret too, F can build
				// it): with no entry identifier, and naming the identifier of a message the receiver has / has not opened
				for _, ref := range []string{"none", "S1", "S2"} {
					var idb []byte
					if ref != "none" {
						idb = cidOf(e[ref]).Bytes()
					}
					oos := &protocoltypes.OutOfStoreMessage{Cid: idb, DevicePk: sDevRaw, Counter: k, Sig: sig, EncryptedPayload: box, Nonce: []byte(fmt.Sprintf("forged-nonce-%d-%s........", k, sn))[:24]}
					for ri, Rx := range []*party{wd.R.cloneParty(), Ro.cloneParty()} {
						var clear []byte
						var oerr error
						func() {
							defer func() {
								if r := recover(); r != nil {
									oerr = fmt.Errorf("PANIC %v", r)
								}
							}()
							clear, _, oerr = Rx.st.OutOfStoreMessageOpen(context.Background(), oos, groupPK(wd.g))
						}()
						rep.Eval(fmt.Sprintf("%s/forge-push-%s/cid=%v/receiver-opened=%v/refused=%v", wd.kind, sn, ref != "none", ri == 1, oerr != nil))
						if oerr == nil {
							rep.Violation("C01/forged-push-payload-opened", fmt.Sprintf("world=%s: push payload forged by a fellow member (signature '%s', counter %d, entry identifier of %s, receiver has opened S1,S2: %v) is delivered as the sender's message: %q", wd.kind, sn, k, ref, ri == 1, clear), c01Case{World: wd.kind, Kind: "forge-push-" + sn, Detail: fmt.Sprintf("counter=%d cid=%s opened=%v", k, ref, ri == 1)})
						}
					}
				}
			}
		}
		rep.Sample(map[string]interface{}{"kind": "forge", "world": wd.kind, "signers": []string{"F-device", "F-member", "copied", "empty", "zero64", "group-secret-key"}, "counters": []int{1, 2, 3}})

		// (vi) envelope sealed for another group presented under this group, and the reverse
		{
			h := honest["O1"]
			check(wd, "other-group", "O1 presented under g", wd.R.cloneParty(), wd.g, e["O1"], &h, true)
			h2 := honest["S1"]
			check(wd, "other-group", "S1 presented under other group", wd.R.cloneParty(), og, e["S1"], &h2, true)
		}

		// after all of the above on clones, the original R still opens everything honestly
		for _, n := range names[:4] {
			r := wd.R.open(wd.g, e[n])
			if !r.same(honest[n]) || !r.ok {
				rep.Violation("C01/state-disturbed", "R no longer opens "+n, c01Case{World: wd.kind, Kind: "final", Detail: n})
			}
		}
	}
	rep.Set("payload_sizes", sizes)
	rep.Set("flip_payload_sizes", flipSizes)
}

func trunc(b []byte) []byte {
	if len(b) > 24 {
		return b[:24]
	}
	return b
}

func c01WorldOf(seed int64, kind string, w int) *c01World {
	for _, wd := range c01Worlds(seed, w) {
		if wd.kind == kind {
			return wd
		}
	}
	panic("no world " + kind)
}
