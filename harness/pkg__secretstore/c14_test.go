//go:build verif

package secretstore

import (
	"bytes"
	"context"
	"fmt"
	"testing"

	"google.golang.org/protobuf/proto"

	"berty.tech/weshnet/v2/internal/zzverif/vrep"
	"berty.tech/weshnet/v2/pkg/protocoltypes"
)

type c14Cfg struct {
	Kind string `json:"group"`
	W    int    `json:"window"`
	N    int    `json:"messages"`
	Refs int    `json:"reference_window"`
	C    int    `json:"registered_at"`
}

type c14Op struct {
	Op string `json:"op"` // log | push | reg
	K  int    `json:"k"`
}

func (o c14Op) String() string { return fmt.Sprintf("%s(%d)", o.Op, o.K) }

type pushResult struct {
	ok       bool
	err      string
	payload  []byte
	device   []byte
	counter  uint64
	groupPK  []byte
	received bool
}

func (p *party) pushOpen(payload []byte) (res pushResult) {
	defer func() {
		if r := recover(); r != nil {
			res = pushResult{err: fmt.Sprintf("PANIC: %v", r)}
		}
	}()
	m, g, clear, already, err := p.st.OpenOutOfStoreMessage(context.Background(), payload)
	if err != nil {
		return pushResult{err: errClass(err)}
	}
	em := &protocoltypes.EncryptedMessage{}
	if err := proto.Unmarshal(clear, em); err != nil {
		return pushResult{err: "cleartext-not-a-message"}
	}
	return pushResult{ok: true, payload: em.Plaintext, device: m.DevicePk, counter: m.Counter, groupPK: g.GetPublicKey(), received: already}
}

// logOpen is what MessageStore.processMessage does with a log entry: open, then move the reference window.
func (p *party) logOpen(g *protocoltypes.Group, data []byte) openResult {
	res := p.open(g, data)
	if res.ok {
		_ = p.st.UpdateOutOfStoreGroupReferences(context.Background(), res.device, res.counter, g)
	}
	return res
}

func c14Explore(rep *vrep.Report, seed int64, cfg c14Cfg, flipStates map[string]bool) {
	g, R0, senders := c02BuildN(seed, c02Cfg{Kind: cfg.Kind, W: cfg.W, N: cfg.N, C: []int{cfg.C}, Senders: 1}, cfg.Refs)
	s := senders[0]
	must(R0.st.PutGroup(context.Background(), g))
	// push payloads, sealed by the sender side for each message
	pushes := make([][]byte, cfg.N)
	for i := 0; i < cfg.N; i++ {
		env, headers, err := s.p.st.OpenEnvelopeHeaders(s.envs[i], g)
		must(err)
		oos, err := s.p.st.SealOutOfStoreMessageEnvelope(cidOf(s.envs[i]), env, headers, g)
		must(err)
		pushes[i] = mustBytes(proto.Marshal(oos))
	}
	type ref struct {
		registered bool
		opened     map[int]bool
		centre     int
	}
	type node struct {
		ds   *memDS
		ref  ref
		hist []c14Op
	}
	var ops []c14Op
	for k := 1; k <= cfg.N; k++ {
		ops = append(ops, c14Op{"log", k}, c14Op{"push", k})
	}
	ops = append(ops, c14Op{"reg", cfg.C})
	init := node{ds: R0.ds, ref: ref{opened: map[int]bool{}}}
	seen := map[string]bool{init.ds.dump(): true}
	frontier := []node{init}
	var states, transitions int64 = 1, 0
	maxDepth := 0
	var lastHist []c14Op
	viol := func(kind string, n node, op c14Op, desc string) {
		rep.Violation("C14/"+kind, fmt.Sprintf("cfg=%+v after %v then %v: %s", cfg, n.hist, op, desc),
			map[string]interface{}{"cfg": cfg, "history": append(append([]c14Op{}, n.hist...), op)})
	}
	logOpenable := func(r ref, k int) bool {
		return r.opened[k] || (r.registered && cfg.C < k && k <= cfg.C+cfg.W+len(r.opened))
	}
	for len(frontier) > 0 {
		n := frontier[0]
		frontier = frontier[1:]
		if len(n.hist) > maxDepth {
			maxDepth = len(n.hist)
		}
		// non-expanding probes in this state: mutated push payloads and an unknown group reference
		depthKey := fmt.Sprintf("d%d", len(n.hist))
		if n.ref.registered && !flipStates[depthKey] && len(n.hist) >= 1 {
			flipStates[depthKey] = true
			c14Mutations(rep, cfg, R0, n.ds, pushes[cfg.C], func(kind, desc string) { viol(kind, n, c14Op{"mutated-push", cfg.C + 1}, desc) })
		}
		for _, op := range ops {
			ds := n.ds.clone()
			R := R0.onDS(ds)
			before := n.ds.dump()
			nr := ref{n.ref.registered, map[int]bool{}, n.ref.centre}
			for k := range n.ref.opened {
				nr.opened[k] = true
			}
			transitions++
			switch op.Op {
			case "reg":
				err := R.st.RegisterChainKey(context.Background(), g, s.p.md(g).Device(), s.anns[cfg.C])
				rep.Eval(fmt.Sprintf("reg/before=%v/err=%v", n.ref.registered, err != nil))
				if err != nil {
					viol("register-error", n, op, err.Error())
				}
				if n.ref.registered && ds.dump() != before {
					viol("reregistration-changed-state", n, op, "datastore changed")
				}
				if !n.ref.registered {
					nr.registered = true
					nr.centre = cfg.C + cfg.W
				}
			case "log":
				res := R.logOpen(g, s.envs[op.K-1])
				must := logOpenable(n.ref, op.K)
				mustFail := !n.ref.registered || op.K <= cfg.C
				rep.Eval(fmt.Sprintf("log/must=%v/mustfail=%v/ok=%v", must, mustFail, res.ok))
				if must && !res.ok {
					viol("log-open-refused", n, op, "openable message refused through the log (after pushes "+fmt.Sprint(n.hist)+"): "+res.err)
				}
				if mustFail && res.ok {
					viol("log-open-before-counter", n, op, "message at or before the registered counter opened")
				}
				if res.ok {
					if !bytes.Equal(res.payload, s.pay[op.K-1]) || !bytes.Equal(res.device, s.dev) || res.counter != uint64(op.K) {
						viol("log-wrong-content", n, op, "wrong content")
					}
					nr.opened[op.K] = true
					nr.centre = op.K
				}
			case "push":
				res := R.pushOpen(pushes[op.K-1])
				inRef := n.ref.registered && n.ref.centre-cfg.Refs <= op.K && op.K <= n.ref.centre+cfg.Refs-1
				must := logOpenable(n.ref, op.K) && inRef
				rep.Eval(fmt.Sprintf("push/log-openable=%v/in-ref-window=%v/ok=%v/err=%s", logOpenable(n.ref, op.K), inRef, res.ok, res.err))
				if must && !res.ok {
					viol("push-open-refused", n, op, fmt.Sprintf("push payload of an openable message inside the reference window (centre %d, +-%d) refused: %s", n.ref.centre, cfg.Refs, res.err))
				}
				if !n.ref.registered && res.ok {
					viol("push-open-unregistered", n, op, "push payload opened without any chain key")
				}
				if res.ok {
					if !bytes.Equal(res.payload, s.pay[op.K-1]) || !bytes.Equal(res.device, s.dev) || res.counter != uint64(op.K) || !bytes.Equal(res.groupPK, g.PublicKey) {
						viol("push-wrong-content", n, op, fmt.Sprintf("opened to payload=%q counter=%d", res.payload, res.counter))
					}
					if res.received != n.ref.opened[op.K] {
						viol("already-received-flag", n, op, fmt.Sprintf("AlreadyReceived=%v but received through the log=%v", res.received, n.ref.opened[op.K]))
					}
					nr.centre = op.K
				} else if ds.dump() != before {
					viol("failed-push-changed-state", n, op, "a refused push open modified the datastore")
				}
			}
			// cross-path invariant, checked in every reached state for every message (non-expanding probes on clones):
			// whatever the C02 reference says is log-openable must open through the log.
			for k := 1; k <= cfg.N; k++ {
				if logOpenable(nr, k) {
					probe := R0.onDS(ds.clone())
					if r := probe.logOpen(g, s.envs[k-1]); !r.ok {
						viol("log-path-disturbed", n, op, fmt.Sprintf("after this step message %d is no longer openable through the log: %s", k, r.err))
					}
				}
			}
			key := ds.dump()
			if seen[key] {
				continue
			}
			seen[key] = true
			states++
			nh := append(append([]c14Op{}, n.hist...), op)
			lastHist = nh
			frontier = append(frontier, node{ds: ds, ref: nr, hist: nh})
		}
	}
	rep.AddStates(states)
	rep.AddTransitions(transitions)
	rep.AddTraces(transitions)
	rep.Sample(map[string]interface{}{"cfg": cfg, "states": states, "transitions": transitions, "max_depth": maxDepth, "deepest_history": fmt.Sprint(lastHist)})
	if int64(maxDepth) > extraInt(rep, "max_depth") {
		rep.Set("max_depth", int64(maxDepth))
	}
}

// c14Mutations: every single-bit flip of one push payload and unknown references, on clones of one state.
func c14Mutations(rep *vrep.Report, cfg c14Cfg, R0 *party, ds *memDS, push []byte, viol func(kind, desc string)) {
	honest := R0.onDS(ds.clone()).pushOpen(push)
	for bit := 0; bit < len(push)*8; bit++ {
		mut := append([]byte(nil), push...)
		mut[bit/8] ^= 1 << uint(bit%8)
		res := R0.onDS(ds.clone()).pushOpen(mut)
		outcome := "rejected"
		if res.ok {
			outcome = "opened-identical"
			if !honest.ok || !bytes.Equal(res.payload, honest.payload) || res.counter != honest.counter || !bytes.Equal(res.device, honest.device) {
				outcome = "opened-different"
			}
		}
		rep.Eval("push-bitflip/" + outcome + "/" + res.err)
		if outcome == "opened-different" || (len(res.err) > 5 && res.err[:5] == "PANIC") {
			viol("mutated-push-"+outcome, fmt.Sprintf("bit %d of the push payload flipped: %+v", bit, res))
		}
	}
	oos := &protocoltypes.OutOfStoreMessageEnvelope{}
	must(proto.Unmarshal(push, oos))
	for i, ref := range [][]byte{nil, {}, make([]byte, 32), bytes.Repeat([]byte{0xff}, 32), oos.GroupReference[:31]} {
		m := proto.Clone(oos).(*protocoltypes.OutOfStoreMessageEnvelope)
		m.GroupReference = ref
		res := R0.onDS(ds.clone()).pushOpen(mustBytes(proto.Marshal(m)))
		rep.Eval(fmt.Sprintf("push-unknown-ref/ok=%v/%s", res.ok, res.err))
		if res.ok {
			viol("unknown-reference-opened", fmt.Sprintf("unknown group reference #%d opened", i))
		}
	}
}

func TestVerifC14(t *testing.T) {
	rep := vrep.New("C14")
	defer func() {
		if err := rep.Finish(); err != nil {
			t.Fatal(err)
		}
		if rep.NViolations() > 0 {
			t.Fail()
		}
	}()
	seed := vrep.Seed()
	maxN := 4
	kinds := []string{"multimember", "contact"}
	if vrep.Thorough() {
		maxN = 5
		kinds = []string{"multimember", "contact", "account"}
	}
	var cfgs []c14Cfg
	for _, kind := range kinds {
		for w := 1; w <= 3; w++ {
			for refs := 1; refs <= 3; refs++ {
				for c := 0; c <= 1; c++ {
					if kind != "multimember" && (c == 1 || (w == 2 && !vrep.Thorough())) {
						continue
					}
					cfgs = append(cfgs, c14Cfg{Kind: kind, W: w, N: maxN, Refs: refs, C: c})
				}
			}
		}
	}
	for _, cfg := range cfgs {
		c14Explore(rep, seed, cfg, map[string]bool{"d3": !vrep.Thorough(), "d4": !vrep.Thorough(), "d5": true, "d6": true, "d7": true, "d8": true, "d9": true, "d10": true, "d11": true, "d12": true})
	}
	rep.Set("configurations", int64(len(cfgs)))
}
