//go:build verif

package secretstore

import (
	"bytes"
	"context"
	"fmt"
	"strings"
	"testing"

	"google.golang.org/protobuf/proto"

	"berty.tech/weshnet/v2/internal/zzverif/vrep"
	"berty.tech/weshnet/v2/pkg/protocoltypes"
)

type c14Cfg struct {
	Kind string `json:"group"`
	W    int    `json:"window"`
	N    int    `json:"messages"`
	Refs int    `json:"reference_window"`
	C    int    `json:"registered_at"`
}

type c14Op struct {
	Op   string `json:"op"` // log | push | reg
	K    int    `json:"k"`
	Lane int    `json:"lane"`
}

func (o c14Op) String() string { return fmt.Sprintf("%s%d(%d)", o.Op, o.Lane, o.K) }

type pushResult struct {
	ok       bool
	err      string
	payload  []byte
	device   []byte
	counter  uint64
	groupPK  []byte
	received bool
}

func (p *party) pushOpen(payload []byte) (res pushResult) {
	defer func() {
		if r := recover(); r != nil {
			res = pushResult{err: fmt.Sprintf("PANIC: %v", r)}
		}
	}()
	m, g, clear, already, err := p.st.OpenOutOfStoreMessage(context.Background(), payload)
	if err != nil {
		return pushResult{err: errClass(err)}
	}
	em := &protocoltypes.EncryptedMessage{}
	if err := proto.Unmarshal(clear, em); err != nil {
		return pushResult{err: "cleartext-not-a-message"}
	}
	return pushResult{ok: true, payload: em.Plaintext, device: m.DevicePk, counter: m.Counter, groupPK: g.GetPublicKey(), received: already}
}

// logOpen is what MessageStore.processMessage does with a log entry: open, then move the reference window.
func (p *party) logOpen(g *protocoltypes.Group, data []byte) openResult {
	res := p.open(g, data)
	if res.ok {
		_ = p.st.UpdateOutOfStoreGroupReferences(context.Background(), res.device, res.counter, g)
	}
	return res
}

// c14Lane is one (group, sender device) pair whose messages reach the receiver through the log and as push payloads.
type c14Lane struct {
	g      *protocoltypes.Group
	s      *c02Sender
	pushes [][]byte
}

type c14Ref struct {
	registered bool
	opened     map[int]bool
	centre     int
}

func c14Explore(rep *vrep.Report, seed int64, cfg c14Cfg, flipStates map[string]bool) {
	var lanes []*c14Lane
	var R0 *party
	if cfg.Kind == "account+contact" {
		// the same sender device (A1) seen by the same receiver (A2) in two groups: the account group of A and
		// the contact group A<->B; counters overlap (both chains start at 0)
		mk := func(a, d string) *party { return newParty(seed, a, d, cfg.W, cfg.Refs, false) }
		R0 = mk("A", "2")
		S := mk("A", "1")
		gAcc, _, err := S.st.GetGroupForAccount()
		must(err)
		gAB, err := S.st.GetGroupForContact(mk("B", "1").accountPub())
		must(err)
		for _, g := range []*protocoltypes.Group{gAcc, gAB} {
			_ = R0.announce(g, R0.md(g).Member())
			cs := &c02Sender{p: S, dev: mustBytes(S.md(g).Device().Raw())}
			rm := R0.md(g).Member()
			cs.anns = append(cs.anns, S.announce(g, rm))
			for i := 1; i <= cfg.N; i++ {
				pl := []byte(fmt.Sprintf("msg-%x-%d", g.PublicKey[:2], i))
				cs.pay = append(cs.pay, pl)
				cs.envs = append(cs.envs, S.seal(g, pl))
				cs.anns = append(cs.anns, S.announce(g, rm))
			}
			lanes = append(lanes, &c14Lane{g: g, s: cs})
		}
	} else if cfg.Kind == "two-senders" {
		// two sender devices in ONE group: their counters overlap and drift apart, the receiver keeps one reference
		// window per sender
		g, r0, senders := c02BuildN(seed, c02Cfg{Kind: "multimember", W: cfg.W, N: cfg.N, C: []int{cfg.C, cfg.C}, Senders: 2}, cfg.Refs)
		R0 = r0
		lanes = append(lanes, &c14Lane{g: g, s: senders[0]}, &c14Lane{g: g, s: senders[1]})
	} else {
		g, r0, senders := c02BuildN(seed, c02Cfg{Kind: cfg.Kind, W: cfg.W, N: cfg.N, C: []int{cfg.C}, Senders: 1}, cfg.Refs)
		R0 = r0
		lanes = append(lanes, &c14Lane{g: g, s: senders[0]})
	}
	for _, ln := range lanes {
		must(R0.st.PutGroup(context.Background(), ln.g))
		// push payloads, sealed by the sender side for each message
		for i := 0; i < cfg.N; i++ {
			env, headers, err := ln.s.p.st.OpenEnvelopeHeaders(ln.s.envs[i], ln.g)
			must(err)
			oos, err := ln.s.p.st.SealOutOfStoreMessageEnvelope(cidOf(ln.s.envs[i]), env, headers, ln.g)
			must(err)
			ln.pushes = append(ln.pushes, mustBytes(proto.Marshal(oos)))
		}
	}
	type node struct {
		ds   *memDS
		ref  []c14Ref
		hist []c14Op
	}
	var ops []c14Op
	for li := range lanes {
		for k := 1; k <= cfg.N; k++ {
			ops = append(ops, c14Op{"log", k, li}, c14Op{"push", k, li})
		}
		ops = append(ops, c14Op{"reg", cfg.C, li})
	}
	init := node{ds: R0.ds}
	for range lanes {
		init.ref = append(init.ref, c14Ref{opened: map[int]bool{}})
	}
	seen := map[string]bool{init.ds.dump(): true}
	frontier := []node{init}
	var states, transitions int64 = 1, 0
	maxDepth := 0
	var lastHist []c14Op
	capHit := false
	viol := func(kind string, n node, op c14Op, desc string) {
		rep.Violation("C14/"+kind, fmt.Sprintf("cfg=%+v after %v then %v: %s", cfg, n.hist, op, desc),
			map[string]interface{}{"cfg": cfg, "history": append(append([]c14Op{}, n.hist...), op)})
	}
	logOpenable := func(r c14Ref, k int) bool {
		return r.opened[k] || (r.registered && cfg.C < k && k <= cfg.C+cfg.W+len(r.opened))
	}
	for len(frontier) > 0 {
		if rep.NViolations() > 0 {
			// something is already reported for this run: no need to explore the rest of a state space that a
			// broken store may have made much larger
			rep.NotExhaustive("exploration stopped after the first violations")
			break
		}
		n := frontier[0]
		frontier = frontier[1:]
		if len(n.hist) > maxDepth {
			maxDepth = len(n.hist)
		}
		// non-expanding probes in this state: mutated push payloads and an unknown group reference
		depthKey := fmt.Sprintf("d%d", len(n.hist))
		if n.ref[0].registered && !flipStates[depthKey] && len(n.hist) >= 1 && len(lanes) == 1 {
			flipStates[depthKey] = true
			c14Mutations(rep, cfg, R0, n.ds, lanes[0].pushes[cfg.C], func(kind, desc string) { viol(kind, n, c14Op{"mutated-push", cfg.C + 1, 0}, desc) })
		}
		for _, op := range ops {
			ln := lanes[op.Lane]
			g, s, pushes := ln.g, ln.s, ln.pushes
			nref := n.ref[op.Lane]
			ds := n.ds.clone()
			R := R0.onDS(ds)
			before := n.ds.dump()
			newRefs := make([]c14Ref, len(n.ref))
			for i, r := range n.ref {
				newRefs[i] = c14Ref{r.registered, map[int]bool{}, r.centre}
				for k := range r.opened {
					newRefs[i].opened[k] = true
				}
			}
			nr := &newRefs[op.Lane]
			transitions++
			switch op.Op {
			case "reg":
				err := R.st.RegisterChainKey(context.Background(), g, s.p.md(g).Device(), s.anns[cfg.C])
				rep.Eval(fmt.Sprintf("reg/before=%v/err=%v", nref.registered, err != nil))
				if err != nil {
					viol("register-error", n, op, err.Error())
				}
				if nref.registered && ds.dump() != before {
					viol("reregistration-changed-state", n, op, "datastore changed")
				}
				if !nref.registered {
					nr.registered = true
					nr.centre = cfg.C + cfg.W
				}
			case "log":
				res := R.logOpen(g, s.envs[op.K-1])
				must := logOpenable(nref, op.K)
				mustFail := !nref.registered || op.K <= cfg.C
				rep.Eval(fmt.Sprintf("log/must=%v/mustfail=%v/ok=%v", must, mustFail, res.ok))
				if must && !res.ok {
					viol("log-open-refused", n, op, "openable message refused through the log (after pushes "+fmt.Sprint(n.hist)+"): "+res.err)
				}
				if mustFail && res.ok {
					viol("log-open-before-counter", n, op, "message at or before the registered counter opened")
				}
				if res.ok {
					if !bytes.Equal(res.payload, s.pay[op.K-1]) || !bytes.Equal(res.device, s.dev) || res.counter != uint64(op.K) {
						viol("log-wrong-content", n, op, "wrong content")
					}
					nr.opened[op.K] = true
					nr.centre = op.K
				}
			case "push":
				chainBefore := c02StoredCounter(R, g, s)
				res := R.pushOpen(pushes[op.K-1])
				// "without disturbing the log path": a push open never moves the stored chain key of the sender, and
				// opening the same payload again changes nothing
				if chainAfter := c02StoredCounter(R, g, s); chainAfter != chainBefore {
					viol("push-open-moved-the-chain-key", n, op, fmt.Sprintf("the sender's stored chain-key counter went from %d to %d during a push open", chainBefore, chainAfter))
				}
				if res.ok {
					again := ds.clone()
					if r2 := R0.onDS(again).pushOpen(pushes[op.K-1]); !r2.ok || again.dump() != ds.dump() {
						viol("push-open-not-idempotent", n, op, fmt.Sprintf("opening the same push payload a second time: ok=%v, datastore changed=%v", r2.ok, again.dump() != ds.dump()))
					}
				}
				inRef := nref.registered && nref.centre-cfg.Refs <= op.K && op.K <= nref.centre+cfg.Refs-1
				must := logOpenable(nref, op.K) && inRef
				rep.Eval(fmt.Sprintf("push/log-openable=%v/in-ref-window=%v/ok=%v/err=%s", logOpenable(nref, op.K), inRef, res.ok, res.err))
				if must && !res.ok {
					viol("push-open-refused", n, op, fmt.Sprintf("push payload of an openable message inside the reference window (centre %d, +-%d) refused: %s", nref.centre, cfg.Refs, res.err))
				}
				if !nref.registered && res.ok {
					viol("push-open-unregistered", n, op, "push payload opened without any chain key")
				}
				if res.ok {
					if !bytes.Equal(res.payload, s.pay[op.K-1]) || !bytes.Equal(res.device, s.dev) || res.counter != uint64(op.K) || !bytes.Equal(res.groupPK, g.PublicKey) {
						viol("push-wrong-content", n, op, fmt.Sprintf("opened to payload=%q counter=%d group=%x", res.payload, res.counter, res.groupPK))
					}
					if res.received != nref.opened[op.K] {
						viol("already-received-flag", n, op, fmt.Sprintf("AlreadyReceived=%v but received through the log=%v", res.received, nref.opened[op.K]))
					}
					nr.centre = op.K
				} else if ds.dump() != before {
					viol("failed-push-changed-state", n, op, "a refused push open modified the datastore")
				}
			}
			// cross-path invariant, checked in every reached state for every message of every lane (non-expanding
			// probes on clones): whatever the C02 reference says is log-openable must open through the log.
			for li, l2 := range lanes {
				for k := 1; k <= cfg.N; k++ {
					if logOpenable(newRefs[li], k) {
						probe := R0.onDS(ds.clone())
						if r := probe.logOpen(l2.g, l2.s.envs[k-1]); !r.ok {
							viol("log-path-disturbed", n, op, fmt.Sprintf("after this step message %d of lane %d is no longer openable through the log: %s", k, li, r.err))
						}
					}
				}
			}
			key := ds.dump()
			if seen[key] {
				continue
			}
			seen[key] = true
			states++
			if states > 60000 {
				// far beyond what any configuration reaches on a store whose push opens are idempotent: stop expanding
				if !capHit {
					capHit = true
					rep.NotExhaustive(fmt.Sprintf("C14 cfg %+v: more than 60000 distinct datastore states; exploration of this configuration stopped", cfg))
				}
				continue
			}
			nh := append(append([]c14Op{}, n.hist...), op)
			lastHist = nh
			frontier = append(frontier, node{ds: ds, ref: newRefs, hist: nh})
		}
	}
	rep.AddStates(states)
	rep.AddTransitions(transitions)
	rep.AddTraces(transitions)
	rep.Sample(map[string]interface{}{"cfg": cfg, "states": states, "transitions": transitions, "max_depth": maxDepth, "deepest_history": fmt.Sprint(lastHist)})
	if int64(maxDepth) > extraInt(rep, "max_depth") {
		rep.Set("max_depth", int64(maxDepth))
	}
}

// c14Mutations: every single-bit flip of one push payload and unknown references, on clones of one state.
func c14Mutations(rep *vrep.Report, cfg c14Cfg, R0 *party, ds *memDS, push []byte, viol func(kind, desc string)) {
	honest := R0.onDS(ds.clone()).pushOpen(push)
	for bit := 0; bit < len(push)*8; bit++ {
		mut := append([]byte(nil), push...)
		mut[bit/8] ^= 1 << uint(bit%8)
		res := R0.onDS(ds.clone()).pushOpen(mut)
		outcome := "rejected"
		if res.ok {
			outcome = "opened-identical"
			if !honest.ok || !bytes.Equal(res.payload, honest.payload) || res.counter != honest.counter || !bytes.Equal(res.device, honest.device) {
				outcome = "opened-different"
			}
		}
		rep.Eval("push-bitflip/" + outcome + "/" + res.err)
		if outcome == "opened-different" || (len(res.err) > 5 && res.err[:5] == "PANIC") {
			viol("mutated-push-"+outcome, fmt.Sprintf("bit %d of the push payload flipped: %+v", bit, res))
		}
	}
	oos := &protocoltypes.OutOfStoreMessageEnvelope{}
	must(proto.Unmarshal(push, oos))
	for i, ref := range [][]byte{nil, {}, make([]byte, 32), bytes.Repeat([]byte{0xff}, 32), oos.GroupReference[:31]} {
		m := proto.Clone(oos).(*protocoltypes.OutOfStoreMessageEnvelope)
		m.GroupReference = ref
		res := R0.onDS(ds.clone()).pushOpen(mustBytes(proto.Marshal(m)))
		rep.Eval(fmt.Sprintf("push-unknown-ref/ok=%v/%s", res.ok, res.err))
		if res.ok {
			viol("unknown-reference-opened", fmt.Sprintf("unknown group reference #%d opened", i))
		}
	}
}

func TestVerifC14(t *testing.T) {
	rep := vrep.New("C14")
	defer func() {
		if err := rep.Finish(); err != nil {
			t.Fatal(err)
		}
		if rep.NViolations() > 0 {
			t.Fail()
		}
	}()
	seed := vrep.Seed()
	maxN := 4
	kinds := []string{"multimember", "contact"}
	if vrep.Thorough() {
		maxN = 5
		kinds = []string{"multimember", "contact", "account"}
	}
	var cfgs []c14Cfg
	for _, kind := range kinds {
		for w := 1; w <= 3; w++ {
			for refs := 1; refs <= 3; refs++ {
				for c := 0; c <= 1; c++ {
					if kind != "multimember" && (c == 1 || (w == 2 && !vrep.Thorough())) {
						continue
					}
					cfgs = append(cfgs, c14Cfg{Kind: kind, W: w, N: maxN, Refs: refs, C: c})
				}
			}
		}
	}
	for _, cfg := range cfgs {
		c14Explore(rep, seed, cfg, map[string]bool{"d3": !vrep.Thorough(), "d4": !vrep.Thorough(), "d5": true, "d6": true, "d7": true, "d8": true, "d9": true, "d10": true, "d11": true, "d12": true})
	}
	// two groups sharing the sender's device key (account + contact group of a multi-device account)
	n2 := 2
	if vrep.Thorough() {
		n2 = 3
	}
	for w := 1; w <= 2; w++ {
		for refs := 1; refs <= 2; refs++ {
			cfg := c14Cfg{Kind: "account+contact", W: w, N: n2, Refs: refs, C: 0}
			cfgs = append(cfgs, cfg)
			c14Explore(rep, seed, cfg, map[string]bool{})
		}
	}
	for _, refs := range []int{1, 2} {
		cfg := c14Cfg{Kind: "two-senders", W: 2, N: n2 + 1, Refs: refs, C: 0}
		cfgs = append(cfgs, cfg)
		c14Explore(rep, seed, cfg, map[string]bool{})
	}
	rep.Set("configurations", int64(len(cfgs)))
	c14Faults(rep, seed)
}

// c14Faults: one transient storage fault during a push open (or during the reference-window update of a log open).
// Afterwards the log path must be undisturbed: everything the reference ratchet calls openable opens, with the
// original payload, and the push payload of a delivered message still opens flagged as received.
func c14Faults(rep *vrep.Report, seed int64) {
	cfg := c02Cfg{Kind: "multimember", W: 2, N: 5, C: []int{0}, Senders: 1}
	g, R0, ss := c02BuildN(seed, cfg, 2)
	s := ss[0]
	ctx := context.Background()
	must(R0.st.PutGroup(ctx, g))
	var pushes [][]byte
	for i := 0; i < cfg.N; i++ {
		env, headers, err := s.p.st.OpenEnvelopeHeaders(s.envs[i], g)
		must(err)
		oos, err := s.p.st.SealOutOfStoreMessageEnvelope(cidOf(s.envs[i]), env, headers, g)
		must(err)
		pushes = append(pushes, mustBytes(proto.Marshal(oos)))
	}
	must(R0.st.RegisterChainKey(ctx, g, s.p.md(g).Device(), s.anns[0]))
	type base struct {
		name   string
		prep   func(R *party)
		opened int
	}
	bases := []base{
		{"registered", func(R *party) {}, 0},
		{"registered, 1 delivered", func(R *party) { R.logOpen(g, s.envs[0]) }, 1},
	}
	for _, b := range bases {
		for _, target := range []string{"push(1)", "push(2)", "log(1)", "log(2)"} {
			var k int
			var kind string
			if n, _ := fmt.Sscanf(target, "push(%d)", &k); n == 1 {
				kind = "push"
			} else {
				fmt.Sscanf(target, "log(%d)", &k)
				kind = "log"
			}
			run := func(R *party) bool {
				if kind == "push" {
					r := R.pushOpen(pushes[k-1])
					if r.ok && (!bytes.Equal(r.payload, s.pay[k-1]) || r.counter != uint64(k)) {
						rep.Violation("C14/push-wrong-content", target+" under a storage fault returned other content", map[string]interface{}{"target": target})
					}
					return r.ok
				}
				return R.logOpen(g, s.envs[k-1]).ok
			}
			S0 := R0.cloneParty()
			b.prep(S0)
			n := 0
			dry := S0.cloneParty()
			dry.ds.fail = func(op, key string) error { n++; return nil }
			run(dry)
			for i := 0; i < n; i++ {
				P := S0.cloneParty()
				cnt := 0
				var fop string
				P.ds.fail = func(op, key string) error {
					cnt++
					if cnt-1 == i {
						fop = op + " " + key
						return fmt.Errorf("injected: database is locked")
					}
					return nil
				}
				ok1 := run(P)
				P.ds.fail = nil
				rep.AddTransitions(1)
				opened := map[int]bool{}
				if b.opened == 1 {
					opened[1] = true
				}
				cls, firstBad := "ok", ""
				for j := 1; j <= cfg.N && j <= cfg.W+len(opened); j++ {
					r := P.logOpen(g, s.envs[j-1])
					if !r.ok {
						cls, firstBad = "log-path-disturbed", fmt.Sprintf("message %d: %s", j, r.err)
						break
					}
					if !bytes.Equal(r.payload, s.pay[j-1]) {
						cls, firstBad = "log-path-wrong-content", fmt.Sprintf("message %d", j)
						break
					}
					opened[j] = true
					if pr := P.pushOpen(pushes[j-1]); !pr.ok || !pr.received || !bytes.Equal(pr.payload, s.pay[j-1]) {
						cls, firstBad = "push-of-delivered-message", fmt.Sprintf("message %d: ok=%v received=%v %s", j, pr.ok, pr.received, pr.err)
						break
					}
				}
				rep.Eval(fmt.Sprintf("fault/%s/%s/%s/faulted-call-ok=%v/%s", b.name, target, strings.SplitN(fop, " ", 2)[0], ok1, cls))
				if cls != "ok" {
					rep.Violation("C14/"+cls+"-after-storage-fault", fmt.Sprintf("state '%s': datastore operation %d of %d of %s (%s) fails once; afterwards: %s", b.name, i, n, target, fop, firstBad), map[string]interface{}{"state": b.name, "target": target, "fault_at": i})
				}
			}
		}
	}
	rep.Sample(map[string]interface{}{"part": "one storage fault during a push or log open", "window": cfg.W, "reference_window": 2})
}
