package vsync

import (
	"sync"
)

// Aliases so that rewritten files keep compiling when they mention other sync types.
type (
	Locker = sync.Locker
	Map    = sync.Map
	Pool   = sync.Pool
	Cond   = sync.Cond
)

func NewCond(l Locker) *Cond { return sync.NewCond(l) }

// Mutex is a drop-in replacement of sync.Mutex.
type Mutex struct {
	n    sync.Mutex // pass-through
	held bool
	own  *Thread
}

func (m *Mutex) Lock() {
	s, t := cur()
	if s == nil {
		m.n.Lock()
		return
	}
	if s.aborting {
		return
	}
	if t == nil {
		if m.held {
			panic("vsync: setup code would block on Mutex.Lock")
		}
		m.held = true
		return
	}
	s.yield(t, "lock", s.nameOf(m, "mutex"), func() bool { return !m.held })
	m.held = true
	m.own = t
}

func (m *Mutex) TryLock() bool {
	s, t := cur()
	if s == nil {
		return m.n.TryLock()
	}
	if s.aborting {
		return false
	}
	if t != nil {
		s.yield(t, "trylock", s.nameOf(m, "mutex"), nil)
	}
	if m.held {
		return false
	}
	m.held = true
	m.own = t
	return true
}

func (m *Mutex) Unlock() {
	s, t := cur()
	if s == nil {
		m.n.Unlock()
		return
	}
	if s.aborting {
		return
	}
	if t != nil && s.UnlockPoints {
		s.yield(t, "unlock", s.nameOf(m, "mutex"), nil)
	}
	if !m.held {
		panic("vsync: unlock of unlocked mutex")
	}
	m.held = false
	m.own = nil
}

// RWMutex is a drop-in replacement of sync.RWMutex with Go's writer preference:
// a writer that has arrived and found readers parks visibly and blocks new readers.
type RWMutex struct {
	n              sync.RWMutex
	writer         bool
	readers        int
	pendingWriters int
}

func (m *RWMutex) Lock() {
	s, t := cur()
	if s == nil {
		m.n.Lock()
		return
	}
	if s.aborting {
		return
	}
	if t == nil {
		if m.writer || m.readers > 0 {
			panic("vsync: setup code would block on RWMutex.Lock")
		}
		m.writer = true
		return
	}
	name := s.nameOf(m, "rwmutex")
	// arrival: always schedulable when readers hold the lock (so that "writer pending" becomes a visible state)
	s.yield(t, "wlock", name, func() bool { return !m.writer })
	if m.readers > 0 {
		m.pendingWriters++
		s.yield(t, "wlock-pending", name, func() bool { return !m.writer && m.readers == 0 })
		m.pendingWriters--
	}
	m.writer = true
}

func (m *RWMutex) Unlock() {
	s, t := cur()
	if s == nil {
		m.n.Unlock()
		return
	}
	if s.aborting {
		return
	}
	if t != nil && s.UnlockPoints {
		s.yield(t, "wunlock", s.nameOf(m, "rwmutex"), nil)
	}
	if !m.writer {
		panic("vsync: unlock of unlocked rwmutex")
	}
	m.writer = false
}

func (m *RWMutex) RLock() {
	s, t := cur()
	if s == nil {
		m.n.RLock()
		return
	}
	if s.aborting {
		return
	}
	if t == nil {
		if m.writer {
			panic("vsync: setup code would block on RWMutex.RLock")
		}
		m.readers++
		return
	}
	s.yield(t, "rlock", s.nameOf(m, "rwmutex"), func() bool { return !m.writer && m.pendingWriters == 0 })
	m.readers++
}

func (m *RWMutex) RUnlock() {
	s, t := cur()
	if s == nil {
		m.n.RUnlock()
		return
	}
	if s.aborting {
		return
	}
	if t != nil && s.UnlockPoints {
		s.yield(t, "runlock", s.nameOf(m, "rwmutex"), nil)
	}
	if m.readers <= 0 {
		panic("vsync: runlock of unlocked rwmutex")
	}
	m.readers--
}

func (m *RWMutex) TryLock() bool {
	s, _ := cur()
	if s == nil {
		return m.n.TryLock()
	}
	if m.writer || m.readers > 0 {
		return false
	}
	m.writer = true
	return true
}

func (m *RWMutex) TryRLock() bool {
	s, _ := cur()
	if s == nil {
		return m.n.TryRLock()
	}
	if m.writer || m.pendingWriters > 0 {
		return false
	}
	m.readers++
	return true
}

type rlocker RWMutex

func (r *rlocker) Lock()   { (*RWMutex)(r).RLock() }
func (r *rlocker) Unlock() { (*RWMutex)(r).RUnlock() }

func (m *RWMutex) RLocker() Locker { return (*rlocker)(m) }

// WaitGroup is a drop-in replacement of sync.WaitGroup.
type WaitGroup struct {
	n sync.WaitGroup
	c int
}

func (w *WaitGroup) Add(d int) {
	s, _ := cur()
	if s == nil {
		w.n.Add(d)
		return
	}
	if s.aborting {
		return
	}
	w.c += d
	if w.c < 0 {
		panic("vsync: negative WaitGroup counter")
	}
}

func (w *WaitGroup) Done() { w.Add(-1) }

func (w *WaitGroup) Go(f func()) {
	w.Add(1)
	Go(func() {
		defer w.Done()
		f()
	})
}

func (w *WaitGroup) Wait() {
	s, t := cur()
	if s == nil {
		w.n.Wait()
		return
	}
	if s.aborting {
		return
	}
	if t == nil {
		if w.c != 0 {
			panic("vsync: setup code would block on WaitGroup.Wait")
		}
		return
	}
	s.yield(t, "wgwait", s.nameOf(w, "waitgroup"), func() bool { return w.c == 0 })
}

// Once is a drop-in replacement of sync.Once.
type Once struct {
	n       sync.Once
	done    bool
	running bool
}

func (o *Once) Do(f func()) {
	s, t := cur()
	if s == nil {
		o.n.Do(f)
		return
	}
	if s.aborting {
		return
	}
	if t != nil {
		s.yield(t, "once", s.nameOf(o, "once"), func() bool { return !o.running })
	}
	if o.done {
		return
	}
	o.running = true
	defer func() { o.running = false; o.done = true }()
	f()
}
