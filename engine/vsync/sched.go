// Package vsync is a controlled cooperative scheduler with drop-in shims for sync primitives and channel
// operations. Production files are rewritten (tools/rewrite) to use these shims; with no scheduler installed
// every shim maps to the native operation (pass-through), so rewritten code also runs free.
//
// Under a scheduler exactly one controlled thread runs at a time. Every shim operation is a scheduling point
// placed BEFORE the operation: the thread publishes the pending operation and yields; the scheduler computes the
// enabled set, consumes the next choice and resumes one thread, which performs its pending operation atomically
// and runs on to its next shim operation.
package vsync

import (
	"fmt"
	"os"
	"runtime"
	"strings"
	"sync"
	"sync/atomic"
	"time"
)

type threadState int

const (
	tsReady threadState = iota // has a pending operation (may or may not be enabled)
	tsRunning
	tsDone
)

// Thread is a controlled goroutine.
type Thread struct {
	ID     int
	Name   string
	state  threadState
	resume chan struct{}
	// pending operation
	opKind  string
	opObj   string
	enabled func() bool
	// Daemon threads may legitimately stay blocked at the end (e.g. a consumer loop waiting for work).
	Daemon  bool
	parked  bool // parked on channel(s)
	panicV  interface{}
	aborted bool
}

// Point describes one scheduling decision of an execution.
type Point struct {
	Kind           string // "sched" or "data"
	Enabled        []int  // thread ids (sched) or option indices (data), canonical order
	Chosen         int    // index into Enabled
	RunningEnabled bool   // sched: was the previously running thread among Enabled (then it is Enabled[0])
	Desc           string
}

type abortSentinel struct{}

// Sched is the scheduler of one execution.
type Sched struct {
	threads  []*Thread
	current  *Thread
	last     *Thread // thread that ran the previous step
	yielded  chan struct{}
	prefix   []int
	Points   []Point
	aborting bool
	chans    map[uintptr]*chanModel
	nextChan int
	objNames map[interface{}]string
	Steps    int
	MaxSteps int
	Trace    []string
	keepTrace bool
	// termination
	Deadlock    bool
	Horizon     bool
	Blocked     []string // descriptions of non-daemon threads blocked at the end
	BlockedAll  []string // all threads blocked at the end, with their pending operation
	Diverged    string
	UnlockPoints bool
	mu          sync.Mutex
	lockOrder   []string
}

var active *Sched

// freeWG, when set (free-running race pass), tracks the goroutines started through GoNamed.
var freeWG *sync.WaitGroup

var (
	watchdogOnce sync.Once
	progress     int64 // bumped at every scheduling step and at every execution start
)

// startWatchdog turns "a controlled thread blocked in un-hooked code" into a loud harness error instead of a hang.
func startWatchdog() {
	watchdogOnce.Do(func() {
		go func() {
			last, idle := int64(-1), 0
			for {
				time.Sleep(5 * time.Second)
				cur := atomic.LoadInt64(&progress)
				if active != nil && cur == last {
					idle++
					if idle >= 6 {
						fmt.Fprintf(os.Stderr, "HARNESS-ERROR: vsync watchdog: no scheduling event for 30s; a controlled thread is blocked in code that is not routed through the shims\n")
						if s := active; s != nil && s.current != nil {
							fmt.Fprintf(os.Stderr, "running thread: %s (last op %s %s)\n", s.current.Name, s.current.opKind, s.current.opObj)
						}
						buf := make([]byte, 1<<16)
						buf = buf[:runtime.Stack(buf, true)]
						os.Stderr.Write(buf)
						os.Exit(3)
					}
				} else {
					idle = 0
				}
				last = cur
			}
		}()
	})
}

// Active reports whether a scheduler is installed (controlled mode).
func Active() bool { return active != nil }

func (s *Sched) nameOf(obj interface{}, kind string) string {
	if n, ok := s.objNames[obj]; ok {
		return n
	}
	n := fmt.Sprintf("%s#%d", kind, len(s.objNames))
	s.objNames[obj] = n
	return n
}

// cur returns the controlled thread executing now, or nil in setup/check phases.
func cur() (*Sched, *Thread) {
	s := active
	if s == nil {
		return nil, nil
	}
	return s, s.current
}

// yield publishes the pending operation of t and hands control back to the scheduler; it returns when t is resumed.
func (s *Sched) yield(t *Thread, kind, obj string, enabled func() bool) {
	if s.aborting {
		panic(abortSentinel{})
	}
	t.opKind, t.opObj, t.enabled = kind, obj, enabled
	t.state = tsReady
	s.yielded <- struct{}{}
	<-t.resume
	if s.aborting {
		panic(abortSentinel{})
	}
	t.state = tsRunning
}

// PointHere is an explicit scheduling point for harness code (e.g. before cancelling a context).
func PointHere(label string) {
	s, t := cur()
	if s == nil || t == nil || s.aborting {
		return
	}
	s.yield(t, "point", label, nil)
}

// choose consumes a data choice among n options (n>1).
func (s *Sched) choose(n int, desc string) int {
	idx := len(s.Points)
	c := 0
	if idx < len(s.prefix) {
		c = s.prefix[idx]
		if c >= n {
			s.Diverged = fmt.Sprintf("data choice %d out of range %d at point %d (%s)", c, n, idx, desc)
			c = 0
		}
	}
	en := make([]int, n)
	for i := range en {
		en[i] = i
	}
	s.Points = append(s.Points, Point{Kind: "data", Enabled: en, Chosen: c, Desc: desc})
	return c
}

// Go starts a controlled thread (from harness setup or from a controlled thread).
func Go(fn func()) { GoNamed("", fn) }

func GoNamed(name string, fn func()) *Thread {
	s := active
	if s == nil {
		if wg := freeWG; wg != nil {
			wg.Add(1)
			go func() {
				defer wg.Done()
				fn()
			}()
			return nil
		}
		go fn()
		return nil
	}
	if s.aborting {
		return nil
	}
	t := &Thread{ID: len(s.threads), Name: name, resume: make(chan struct{}), state: tsReady, opKind: "start"}
	if t.Name == "" {
		t.Name = fmt.Sprintf("t%d", t.ID)
	}
	s.threads = append(s.threads, t)
	go func() {
		<-t.resume
		defer func() {
			if r := recover(); r != nil {
				if _, ok := r.(abortSentinel); ok {
					t.aborted = true
				} else {
					buf := make([]byte, 4096)
					buf = buf[:runtime.Stack(buf, false)]
					t.panicV = fmt.Sprintf("%v\n%s", r, buf)
				}
			}
			t.state = tsDone
			s.yielded <- struct{}{}
		}()
		if s.aborting {
			panic(abortSentinel{})
		}
		t.state = tsRunning
		fn()
	}()
	return t
}

// SetDaemon marks the calling thread (or the given one) as allowed to stay blocked at termination.
func (t *Thread) SetDaemon() *Thread {
	if t != nil {
		t.Daemon = true
	}
	return t
}

// Execution is what one run produced.
type Execution struct {
	Points     []Point
	Choices    []int
	Deadlock   bool
	Horizon    bool
	Blocked    []string
	BlockedAll []string
	Panics     []string
	Steps      int
	Trace      []string
	Diverged   string
}

// RunOnce executes setup (which creates the object under test and starts threads with GoNamed) under a fresh
// scheduler, following prefix and then the default choice 0 at every later point.
func RunOnce(prefix []int, maxSteps int, keepTrace bool, setup func(s *Sched)) *Execution {
	if active != nil {
		panic("vsync: nested scheduler")
	}
	s := &Sched{yielded: make(chan struct{}), prefix: prefix, chans: map[uintptr]*chanModel{}, objNames: map[interface{}]string{}, MaxSteps: maxSteps, keepTrace: keepTrace}
	startWatchdog()
	atomic.AddInt64(&progress, 1)
	active = s
	defer func() { active = nil }()
	setup(s)
	s.loop()
	x := &Execution{Points: s.Points, Deadlock: s.Deadlock, Horizon: s.Horizon, Blocked: s.Blocked, BlockedAll: s.BlockedAll, Steps: s.Steps, Trace: s.Trace, Diverged: s.Diverged}
	for _, p := range s.Points {
		x.Choices = append(x.Choices, p.Chosen)
	}
	for _, t := range s.threads {
		if t.panicV != nil {
			x.Panics = append(x.Panics, fmt.Sprintf("%s: %v", t.Name, t.panicV))
		}
	}
	return x
}

func (s *Sched) loop() {
	for {
		// enabled set in canonical order: the thread that ran last first (if enabled), then ascending ids
		var en []*Thread
		for _, t := range s.threads {
			if t.state == tsReady && (t.enabled == nil || t.enabled()) {
				en = append(en, t)
			}
		}
		if len(en) == 0 {
			break
		}
		if s.MaxSteps > 0 && s.Steps >= s.MaxSteps {
			s.Horizon = true
			break
		}
		runningEnabled := false
		if s.last != nil {
			for i, t := range en {
				if t == s.last {
					runningEnabled = true
					copy(en[1:i+1], en[0:i])
					en[0] = t
					break
				}
			}
		}
		choice := 0
		if len(en) > 1 {
			idx := len(s.Points)
			if idx < len(s.prefix) {
				choice = s.prefix[idx]
				if choice >= len(en) {
					s.Diverged = fmt.Sprintf("schedule choice %d out of range %d at point %d", choice, len(en), idx)
					choice = 0
				}
			}
			ids := make([]int, len(en))
			for i, t := range en {
				ids[i] = t.ID
			}
			s.Points = append(s.Points, Point{Kind: "sched", Enabled: ids, Chosen: choice, RunningEnabled: runningEnabled})
		}
		t := en[choice]
		if s.keepTrace {
			s.Trace = append(s.Trace, fmt.Sprintf("%s:%s(%s)", t.Name, t.opKind, t.opObj))
		}
		s.Steps++
		atomic.AddInt64(&progress, 1)
		s.current = t
		s.last = t
		t.resume <- struct{}{}
		<-s.yielded
		s.current = nil
	}
	// termination: classify, then unwind the threads that are still blocked
	for _, t := range s.threads {
		if t.state != tsDone {
			d := fmt.Sprintf("%s blocked at %s(%s)", t.Name, t.opKind, t.opObj)
			s.BlockedAll = append(s.BlockedAll, d)
			if !t.Daemon {
				s.Blocked = append(s.Blocked, d)
			}
		}
	}
	if len(s.Blocked) > 0 && !s.Horizon {
		s.Deadlock = true
	}
	s.aborting = true
	for _, t := range s.threads {
		if t.state != tsDone {
			s.current = t
			t.resume <- struct{}{}
			<-s.yielded
		}
	}
	s.current = nil
}

// FormatChoices renders a schedule compactly.
func FormatChoices(c []int) string {
	var sb strings.Builder
	for i, x := range c {
		if i > 0 {
			sb.WriteByte(',')
		}
		fmt.Fprintf(&sb, "%d", x)
	}
	return sb.String()
}
