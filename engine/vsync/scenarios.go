package vsync

import (
	"encoding/json"
	"fmt"
	"os"
	"strings"
	"sync"
	"time"

	"berty.tech/weshnet/v2/internal/zzverif/vrep"
)

// Scenario is one closed driver: Setup builds a fresh object under test and starts the threads, Check is the oracle.
type Scenario struct {
	Name  string
	Bound int // if > 0: deviation bound of this scenario (overrides the bound of the exploration)
	Setup func(s *Sched) World
	Check func(x *Execution, w World) (string, *Verdict)
}

type ScenarioReplay struct {
	Part     string   `json:"part"`
	Scenario string   `json:"scenario"`
	Choices  []int    `json:"choices"`
	Bound    int      `json:"deviations"`
	Trace    []string `json:"trace,omitempty"`
}

// ExploreScenarios explores every scenario with the deviation bound iterated 0..maxBound, reports coverage and
// violations (each verified by 5 identical replays) into rep. If VERIF_REPLAY names a replay file of this part,
// only that schedule is run.
func ExploreScenarios(rep *vrep.Report, part string, scs []Scenario, maxBound, maxSteps int, budget time.Duration) {
	if os.Getenv("VERIF_RACE_PASS") != "" {
		FreeRunScenarios(rep, part, scs)
		return
	}
	if rp := os.Getenv("VERIF_REPLAY"); rp != "" {
		b, err := os.ReadFile(rp)
		if err != nil {
			panic(err)
		}
		var f struct {
			Replay ScenarioReplay `json:"replay"`
		}
		if err := json.Unmarshal(b, &f); err != nil {
			panic(err)
		}
		if f.Replay.Part != part {
			return
		}
		for _, sc := range scs {
			if sc.Name != f.Replay.Scenario {
				continue
			}
			e := &Explorer{Opt: Options{MaxSteps: maxSteps}, Setup: sc.Setup, Check: sc.Check}
			x, o, v := e.Replay(f.Replay.Choices)
			fmt.Printf("replay %s [%s] schedule %v\ntrace: %s\noutcome: %s\n", part, sc.Name, f.Replay.Choices, strings.Join(x.Trace, " "), o)
			if v != nil {
				fmt.Printf("verdict: %s: %s\n", v.Sig, v.Desc)
				rep.Violation(v.Sig, v.Desc, f.Replay)
			}
		}
		return
	}
	shard, shards := ShardFromEnv()
	deadline := time.Now().Add(budget)
	var maxDepth int64
	for _, sc := range scs {
		sc := sc
		found := false
		scBound := maxBound
		if sc.Bound > 0 {
			scBound = sc.Bound
		}
		for bound := 0; bound <= scBound && !found; bound++ {
			e := &Explorer{Opt: Options{Bound: bound, MaxSteps: maxSteps, Shard: shard, Shards: shards, Deadline: deadline}, Setup: sc.Setup, Check: sc.Check}
			sigs := map[string]bool{}
			e.OnViol = func(x *Execution, v *Verdict) {
				if sigs[v.Sig] {
					return
				}
				if strings.HasPrefix(v.Sig, "HARNESS/") {
					sigs[v.Sig] = true
					rep.Violation(v.Sig, fmt.Sprintf("%s [%s]: %s", part, sc.Name, v.Desc), nil)
					return
				}
				for i := 0; i < 5; i++ {
					_, _, v2 := e.Replay(x.Choices)
					if v2 == nil || v2.Sig != v.Sig {
						rep.Violation("HARNESS/flaky", fmt.Sprintf("%s [%s] schedule %v: verdict not reproducible (%v vs %v)", part, sc.Name, x.Choices, v, v2), nil)
						return
					}
				}
				sigs[v.Sig] = true
				found = true
				x2, _, _ := e.Replay(x.Choices)
				rep.Violation(v.Sig, fmt.Sprintf("%s scenario [%s], %d deviation(s), schedule %v: %s\ntrace: %s", part, sc.Name, bound, x.Choices, v.Desc, strings.Join(x2.Trace, " ")),
					ScenarioReplay{Part: part, Scenario: sc.Name, Choices: x.Choices, Bound: bound, Trace: x2.Trace})
			}
			e.Run()
			st := e.Stats
			rep.AddStates(st.Nodes)
			rep.AddTransitions(st.StepsTotal)
			rep.AddTraces(st.Executions)
			for o := range st.Outcomes {
				rep.Eval(part + " [" + sc.Name + "] => " + o)
			}
			rep.Add("executions", st.Executions)
			if int64(st.MaxDepth) > maxDepth {
				maxDepth = int64(st.MaxDepth)
			}
			if st.Capped {
				rep.NotExhaustive(fmt.Sprintf("%s [%s] bound %d stopped at the time cap after %d executions", part, sc.Name, bound, st.Executions))
			}
			if bound == scBound || found || st.Capped {
				rep.Sample(map[string]interface{}{"part": part, "scenario": sc.Name, "bound_completed": st.BoundDone, "executions_at_this_bound": st.Executions, "distinct_outcomes": len(st.Outcomes),
					"first_schedule": FormatChoices(st.FirstChoices), "last_schedule": FormatChoices(st.LastChoices), "blocked_sets_at_termination": len(st.BlockedSets)})
			}
			if st.Capped {
				break
			}
		}
	}
	rep.Set("max_depth_"+part, maxDepth)
	rep.Set("preemption_bound_"+part, int64(maxBound))
	rep.Add("scenarios", int64(len(scs)))
}

// FreeRunScenarios is the auxiliary pass for unsynchronised accesses: the same scenario bodies run on real
// goroutines with the shims in pass-through mode, in a binary built with -race. The cooperative scheduler cannot
// see such accesses (its hand-offs are happens-before edges), the race detector can. This pass samples schedules;
// it only ever adds "data race in the code under test" reports (made by the race detector itself, which halts the
// process), it never decides anything else.
func FreeRunScenarios(rep *vrep.Report, part string, scs []Scenario) {
	iters := 150
	if vrep.Thorough() {
		iters = 1500
	}
	for _, sc := range scs {
		for i := 0; i < iters; i++ {
			var wg sync.WaitGroup
			freeWG = &wg
			sc.Setup(nil)
			done := make(chan struct{})
			go func() { wg.Wait(); close(done) }()
			select {
			case <-done:
			case <-time.After(5 * time.Millisecond):
				// some thread waits for ever in this scenario (a waiter nobody wakes): leave it behind
			}
			freeWG = nil
		}
		rep.Add("free_running_iterations_"+part, int64(iters))
	}
	rep.Eval(part + "/free-running-race-pass")
	rep.Eval(part + "/free-running-race-pass-completed")
}
