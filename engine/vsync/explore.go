package vsync

import (
	"fmt"
	"os"
	"strconv"
	"strings"
	"time"
)

// Options of one exploration.
type Options struct {
	Bound        int   // maximal number of deviations (preemptions + non-default data choices)
	MaxSteps     int   // step horizon per execution
	MaxExecs     int64 // 0 = unlimited
	Deadline     time.Time
	Shard        int
	Shards       int
	UnlockPoints bool
	StopAtFirst  bool
}

// Stats of one exploration.
type Stats struct {
	Executions   int64
	Nodes        int64 // distinct schedule prefixes (decision nodes of the search tree) visited
	StepsTotal   int64
	Points       int64
	MaxDepth     int
	MaxSteps     int
	Deadlocks    int64
	Horizons     int64
	Capped       bool
	Outcomes     map[string]int64
	BlockedSets  map[string]int64
	FirstChoices []int
	LastChoices  []int
	BoundDone    int
}

// World is what setup returns: the per-execution object under test and observations, handed to check.
type World interface{}

// Verdict of one execution: "" = fine, otherwise a violation signature and description.
type Verdict struct {
	Sig  string
	Desc string
}

type Explorer struct {
	Opt      Options
	Setup    func(s *Sched) World
	Check    func(x *Execution, w World) (outcome string, v *Verdict)
	Stats    Stats
	OnViol   func(x *Execution, v *Verdict)
	stop     bool
}

// ShardFromEnv reads VERIF_SHARD=i/n.
func ShardFromEnv() (int, int) {
	parts := strings.Split(os.Getenv("VERIF_SHARD"), "/")
	if len(parts) != 2 {
		return 0, 1
	}
	i, _ := strconv.Atoi(parts[0])
	n, _ := strconv.Atoi(parts[1])
	if n <= 0 {
		return 0, 1
	}
	return i, n
}

func (e *Explorer) runOne(prefix []int, keepTrace bool) (*Execution, World) {
	var w World
	x := RunOnce(prefix, e.Opt.MaxSteps, keepTrace, func(s *Sched) {
		s.UnlockPoints = e.Opt.UnlockPoints
		w = e.Setup(s)
	})
	return x, w
}

// Replay runs one schedule and returns its execution (with trace) and verdict.
func (e *Explorer) Replay(choices []int) (*Execution, string, *Verdict) {
	x, w := e.runOne(choices, true)
	if x.Diverged != "" {
		return x, "", &Verdict{Sig: "HARNESS/diverged", Desc: x.Diverged}
	}
	o, v := e.Check(x, w)
	return x, o, v
}

func cost(x *Execution, upto int) int {
	c := 0
	for j := 0; j < upto; j++ {
		p := x.Points[j]
		if p.Chosen != 0 && (p.Kind == "data" || p.RunningEnabled) {
			c++
		}
	}
	return c
}

func (e *Explorer) account(x *Execution, w World, prefixLen int) {
	st := &e.Stats
	st.Executions++
	st.Nodes += int64(len(x.Points)-prefixLen) + 1
	st.StepsTotal += int64(x.Steps)
	st.Points += int64(len(x.Points))
	if len(x.Points) > st.MaxDepth {
		st.MaxDepth = len(x.Points)
	}
	if x.Steps > st.MaxSteps {
		st.MaxSteps = x.Steps
	}
	if x.Deadlock {
		st.Deadlocks++
	}
	if x.Horizon {
		st.Horizons++
	}
	if st.FirstChoices == nil {
		st.FirstChoices = append([]int{}, x.Choices...)
	}
	st.LastChoices = append(st.LastChoices[:0], x.Choices...)
	if x.Diverged != "" {
		if e.OnViol != nil {
			e.OnViol(x, &Verdict{Sig: "HARNESS/diverged", Desc: x.Diverged})
		}
		return
	}
	outcome, v := e.Check(x, w)
	st.Outcomes[outcome]++
	st.BlockedSets[strings.Join(x.BlockedAll, "; ")]++
	if v != nil {
		if e.OnViol != nil {
			e.OnViol(x, v)
		}
		if e.Opt.StopAtFirst {
			e.stop = true
		}
	}
}

func (e *Explorer) limits() bool {
	if e.stop {
		return true
	}
	if e.Opt.MaxExecs > 0 && e.Stats.Executions >= e.Opt.MaxExecs {
		e.Stats.Capped = true
		return true
	}
	if !e.Opt.Deadline.IsZero() && e.Stats.Executions%64 == 0 && time.Now().After(e.Opt.Deadline) {
		e.Stats.Capped = true
		return true
	}
	return false
}

func (e *Explorer) explore(prefix []int, bound int, level int) {
	if e.limits() {
		return
	}
	x, w := e.runOne(prefix, false)
	if level > 0 || e.Opt.Shard == 0 {
		e.account(x, w, len(prefix))
	}
	item := 0
	for i := len(prefix); i < len(x.Points); i++ {
		p := x.Points[i]
		c := cost(x, i)
		if p.Kind == "data" || p.RunningEnabled {
			c++
		}
		if c > bound {
			continue
		}
		for alt := 1; alt < len(p.Enabled); alt++ {
			if level == 0 && e.Opt.Shards > 1 {
				item++
				if item%e.Opt.Shards != e.Opt.Shard {
					continue
				}
			}
			np := append(append(make([]int, 0, i+1), x.Choices[:i]...), alt)
			e.explore(np, bound, level+1)
			if e.stop || e.Stats.Capped {
				return
			}
		}
	}
}

// Run explores all schedules with at most Opt.Bound deviations.
func (e *Explorer) Run() {
	if e.Opt.Shards == 0 {
		e.Opt.Shards = 1
	}
	if e.Stats.Outcomes == nil {
		e.Stats.Outcomes = map[string]int64{}
		e.Stats.BlockedSets = map[string]int64{}
	}
	// determinism: the default schedule replayed twice must give identical choice/enabled sequences
	a, _ := e.runOne(nil, true)
	b, _ := e.runOne(nil, true)
	if fmt.Sprint(a.Trace) != fmt.Sprint(b.Trace) || fmt.Sprint(a.Points) != fmt.Sprint(b.Points) {
		if e.OnViol != nil {
			e.OnViol(a, &Verdict{Sig: "HARNESS/nondeterministic", Desc: fmt.Sprintf("default schedule differs between two runs:\n%v\n%v", a.Trace, b.Trace)})
		}
		return
	}
	e.explore(nil, e.Opt.Bound, 0)
	if !e.Stats.Capped && !e.stop {
		e.Stats.BoundDone = e.Opt.Bound
	} else {
		e.Stats.BoundDone = -1
	}
}
