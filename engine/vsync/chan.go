package vsync

import (
	"fmt"
	"reflect"
)

// chanModel is the scheduler's model of a channel created by a rewritten make(chan T, n).
// Values travel through the model; the real channel is only an identity (and is closed on Close so that
// un-rewritten observers see it).
type chanModel struct {
	name   string
	cap    int
	buf    []interface{}
	closed bool
	recvq  []*waiter
	sendq  []*waiter
}

// waiter is a thread parked on one or several channel cases.
type waiter struct {
	t     *Thread
	cases []*Case
	done  bool
	idx   int
	val   interface{}
	ok    bool
	panicClosed bool
}

// Case is one case of a select (or the single case of a plain send/receive).
type Case struct {
	send bool
	ch   reflect.Value // the real channel value
	m    *chanModel    // nil for external (unregistered) channels
	val  interface{}   // value to send
	// result of a receive
	rval interface{}
	rok  bool
	// external channel already polled ready (the operation then counts as performed)
	extDone bool
}

func chanPtr(v reflect.Value) uintptr {
	if !v.IsValid() || v.IsNil() {
		return 0
	}
	return v.Pointer()
}

// Make replaces make(chan T, n).
func Make[T any](n ...int) chan T {
	c := 0
	if len(n) > 0 {
		c = n[0]
	}
	ch := make(chan T, c)
	if s := active; s != nil && !s.aborting {
		s.nextChan++
		s.chans[reflect.ValueOf(ch).Pointer()] = &chanModel{name: fmt.Sprintf("chan#%d", s.nextChan), cap: c}
	}
	return ch
}

func (s *Sched) model(v reflect.Value) *chanModel {
	p := chanPtr(v)
	if p == 0 {
		return nil
	}
	return s.chans[p]
}

// RecvCase / SendCase build select cases.
func RecvCase[T any](c <-chan T) *Case { return &Case{ch: reflect.ValueOf(c)} }
func SendCase[T any](c chan<- T, v T) *Case {
	return &Case{send: true, ch: reflect.ValueOf(c), val: v}
}

// Value returns the received value of a fired receive case.
func Value[T any](k *Case) T {
	if k.rval == nil {
		var z T
		return z
	}
	return k.rval.(T)
}

// Ok reports whether the received value was sent (false: channel closed).
func (k *Case) Ok() bool { return k.rok }

// ready tries to complete case k right now on the model; returns true if it did.
func (s *Sched) tryCase(k *Case) bool {
	if k.m == nil {
		// external channel (ctx.Done(), an event-bus subscription...): non-blocking native poll
		if k.extDone {
			return true
		}
		if !k.ch.IsValid() || k.ch.IsNil() {
			return false
		}
		if k.send {
			chosen, _, _ := reflect.Select([]reflect.SelectCase{{Dir: reflect.SelectSend, Chan: k.ch, Send: reflect.ValueOf(k.val)}, {Dir: reflect.SelectDefault}})
			return chosen == 0
		}
		chosen, rv, ok := reflect.Select([]reflect.SelectCase{{Dir: reflect.SelectRecv, Chan: k.ch}, {Dir: reflect.SelectDefault}})
		if chosen != 0 {
			return false
		}
		k.rok = ok
		if rv.IsValid() && rv.CanInterface() {
			k.rval = rv.Interface()
		}
		return true
	}
	m := k.m
	if k.send {
		if m.closed {
			panic("send on closed channel")
		}
		if len(m.recvq) > 0 {
			i := 0
			if len(m.recvq) > 1 {
				i = s.choose(len(m.recvq), "which parked receiver of "+m.name)
			}
			w := m.recvq[i]
			s.wake(w, m, false, k.val, true)
			return true
		}
		if len(m.buf) < m.cap {
			m.buf = append(m.buf, k.val)
			return true
		}
		return false
	}
	if len(m.buf) > 0 {
		k.rval, k.rok = m.buf[0], true
		m.buf = m.buf[1:]
		if len(m.sendq) > 0 {
			w := m.sendq[0]
			for _, c := range w.cases {
				if c.send && c.m == m {
					m.buf = append(m.buf, c.val)
					break
				}
			}
			s.wake(w, m, true, nil, true)
		}
		return true
	}
	if len(m.sendq) > 0 {
		i := 0
		if len(m.sendq) > 1 {
			i = s.choose(len(m.sendq), "which parked sender of "+m.name)
		}
		w := m.sendq[i]
		for _, c := range w.cases {
			if c.send && c.m == m {
				k.rval, k.rok = c.val, true
				break
			}
		}
		s.wake(w, m, true, nil, true)
		return true
	}
	if m.closed {
		k.rval, k.rok = nil, false
		return true
	}
	return false
}

// wake completes the parked waiter w through its case on channel m.
func (s *Sched) wake(w *waiter, m *chanModel, send bool, val interface{}, ok bool) {
	for i, c := range w.cases {
		if c.m == m && c.send == send {
			w.idx = i
			if !send {
				c.rval, c.rok = val, ok
			}
			break
		}
	}
	w.done = true
	s.unpark(w)
}

func (s *Sched) unpark(w *waiter) {
	for _, c := range w.cases {
		if c.m == nil {
			continue
		}
		q := &c.m.recvq
		if c.send {
			q = &c.m.sendq
		}
		for i, x := range *q {
			if x == w {
				*q = append((*q)[:i:i], (*q)[i+1:]...)
				break
			}
		}
	}
}

// Select replaces a select statement: returns the index of the fired case, or -1 for default.
func Select(hasDefault bool, cases ...*Case) int {
	s, t := cur()
	if s == nil {
		return nativeSelect(hasDefault, cases)
	}
	if s.aborting {
		panic(abortSentinel{})
	}
	desc := ""
	for _, k := range cases {
		k.m = s.model(k.ch)
		if k.m != nil {
			desc += k.m.name + " "
		} else {
			desc += "ext "
		}
	}
	kind := "select"
	if len(cases) == 1 && !hasDefault {
		if cases[0].send {
			kind = "send"
		} else {
			kind = "recv"
		}
	}
	if t != nil {
		// phase 1: arrival, always schedulable
		s.yield(t, kind, desc, nil)
	}
	// which cases can complete now?
	var ready []int
	for i, k := range cases {
		if s.peekReady(k) {
			ready = append(ready, i)
		}
	}
	if len(ready) > 0 {
		pick := ready[0]
		if len(ready) > 1 {
			pick = ready[s.choose(len(ready), "which ready case of "+kind+" "+desc)]
		}
		if !s.tryCase(cases[pick]) {
			panic("vsync: case became unready")
		}
		for i, k := range cases {
			if i != pick && k.m == nil && k.extDone && k.rok {
				panic("vsync: a value received from an external channel would be dropped (external channels must be close-only when combined with other ready cases)")
			}
		}
		return pick
	}
	if hasDefault {
		return -1
	}
	if t == nil {
		panic("vsync: setup code would block on a channel operation: " + desc)
	}
	// phase 2: park on every case
	w := &waiter{t: t, cases: cases}
	for _, k := range cases {
		if k.m == nil {
			continue
		}
		if k.send {
			k.m.sendq = append(k.m.sendq, w)
		} else {
			k.m.recvq = append(k.m.recvq, w)
		}
	}
	t.parked = true
	s.yield(t, kind+"-parked", desc, func() bool {
		if w.done {
			return true
		}
		// closed model channels wake receivers eagerly in Close; here only external channels need polling
		for i, k := range w.cases {
			if k.m == nil && s.tryCase(k) {
				w.done, w.idx = true, i
				s.unpark(w)
				return true
			}
		}
		return false
	})
	t.parked = false
	if w.panicClosed {
		panic("send on closed channel")
	}
	return w.idx
}

// peekReady reports whether case k could complete now, without side effects on model channels.
// For external channels readiness can only be learnt by attempting the operation, so the attempt is made and
// its result kept in the case (the operation then counts as performed at this step).
func (s *Sched) peekReady(k *Case) bool {
	if k.m == nil {
		if k.extDone {
			return true
		}
		if s.tryCase(k) {
			k.extDone = true
			return true
		}
		return false
	}
	m := k.m
	if k.send {
		if m.closed {
			return true // will panic, as Go does
		}
		return len(m.recvq) > 0 || len(m.buf) < m.cap
	}
	return len(m.buf) > 0 || len(m.sendq) > 0 || m.closed
}

// Send replaces `c <- v`.
func Send[T any](c chan<- T, v T) {
	if active == nil {
		c <- v
		return
	}
	Select(false, SendCase(c, v))
}

// Recv replaces `<-c`.
func Recv[T any](c <-chan T) T {
	if active == nil {
		return <-c
	}
	k := RecvCase(c)
	Select(false, k)
	return Value[T](k)
}

// Recv2 replaces `v, ok := <-c`.
func Recv2[T any](c <-chan T) (T, bool) {
	if active == nil {
		v, ok := <-c
		return v, ok
	}
	k := RecvCase(c)
	Select(false, k)
	return Value[T](k), k.rok
}

// Close replaces close(c).
func Close[T any](c chan T) {
	s, t := cur()
	if s == nil {
		close(c)
		return
	}
	if s.aborting {
		return
	}
	v := reflect.ValueOf(c)
	m := s.model(v)
	if t != nil {
		name := "ext"
		if m != nil {
			name = m.name
		}
		s.yield(t, "close", name, nil)
	}
	if m == nil {
		close(c)
		return
	}
	if m.closed {
		panic("close of closed channel")
	}
	m.closed = true
	for len(m.recvq) > 0 {
		s.wake(m.recvq[0], m, false, nil, false)
	}
	for len(m.sendq) > 0 {
		w := m.sendq[0]
		w.panicClosed = true
		s.wake(w, m, true, nil, false)
	}
	close(c)
}

func nativeSelect(hasDefault bool, cases []*Case) int {
	sc := make([]reflect.SelectCase, 0, len(cases)+1)
	for _, k := range cases {
		if k.send {
			sc = append(sc, reflect.SelectCase{Dir: reflect.SelectSend, Chan: k.ch, Send: reflect.ValueOf(k.val)})
		} else {
			sc = append(sc, reflect.SelectCase{Dir: reflect.SelectRecv, Chan: k.ch})
		}
	}
	if hasDefault {
		sc = append(sc, reflect.SelectCase{Dir: reflect.SelectDefault})
	}
	chosen, rv, ok := reflect.Select(sc)
	if hasDefault && chosen == len(cases) {
		return -1
	}
	if !cases[chosen].send {
		cases[chosen].rok = ok
		if rv.IsValid() && rv.CanInterface() {
			cases[chosen].rval = rv.Interface()
		}
	}
	return chosen
}

// Typed case descriptors used by rewritten select statements (no type information is needed at rewrite time:
// the element type is inferred from the channel expression).
type Selectable interface{ kase() *Case }

type RCase[T any] struct{ k *Case }

func (r *RCase[T]) kase() *Case { return r.k }
func (r *RCase[T]) Value() T    { return Value[T](r.k) }
func (r *RCase[T]) Ok() bool    { return r.k.rok }

type SCase struct{ k *Case }

func (s *SCase) kase() *Case { return s.k }

func RecvCaseT[T any](c <-chan T) *RCase[T]     { return &RCase[T]{k: RecvCase(c)} }
func SendCaseT[T any](c chan<- T, v T) *SCase { return &SCase{k: SendCase(c, v)} }

// SelectT is Select over typed descriptors.
func SelectT(hasDefault bool, cases ...Selectable) int {
	ks := make([]*Case, len(cases))
	for i, c := range cases {
		ks[i] = c.kase()
	}
	return Select(hasDefault, ks...)
}
