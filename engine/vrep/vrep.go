// Package vrep collects what a verification harness covered and what it found,
// and writes it to the file named by VERIF_OUT for the /verif/check driver.
package vrep

import (
	"encoding/json"
	"fmt"
	"os"
	"runtime"
	"sort"
	"strconv"
	"sync"
	"time"
)

// Violation is one failing case; Sig is a stable signature (harness + case class)
// used to match known findings, Replay is whatever is needed to re-run the case.
type Violation struct {
	Sig    string      `json:"sig"`
	Desc   string      `json:"desc"`
	Replay interface{} `json:"replay"`
}

type Report struct {
	mu          sync.Mutex
	ID          string                 `json:"property_id"`
	Tier        string                 `json:"tier"`
	Seed        int64                  `json:"seed"`
	Evaluations int64                  `json:"evaluations"`
	States      int64                  `json:"states"`
	Transitions int64                  `json:"transitions"`
	Traces      int64                  `json:"traces_validated_against_impl"`
	Classes     map[string]int64       `json:"classes"`
	Samples     []interface{}          `json:"samples"`
	Violations  []Violation            `json:"violations"`
	Extra       map[string]interface{} `json:"extra"`
	Exhaustive  bool                   `json:"exhaustive"`
	Notes       []string               `json:"notes"`
	WallS       float64                `json:"wall_s"`
	start       time.Time
	vioSeen     map[string]int
	maxSamples  int
}

func Tier() string {
	t := os.Getenv("VERIF_TIER")
	if t == "" {
		t = "quick"
	}
	return t
}

func Thorough() bool { return Tier() == "thorough" }

func Seed() int64 {
	s, err := strconv.ParseInt(os.Getenv("VERIF_SEED"), 10, 64)
	if err != nil {
		return 0
	}
	return s
}

var memGuard sync.Once

// startMemGuard ends the process with a harness error when the heap grows beyond a limit (default 24 GiB,
// VERIF_MEM_LIMIT_GB): an exploration that runs away on a modified tree must not take the machine down.
func startMemGuard() {
	memGuard.Do(func() {
		limit := uint64(24)
		if v, err := strconv.Atoi(os.Getenv("VERIF_MEM_LIMIT_GB")); err == nil && v > 0 {
			limit = uint64(v)
		}
		go func() {
			var ms runtime.MemStats
			for {
				time.Sleep(3 * time.Second)
				runtime.ReadMemStats(&ms)
				if ms.HeapAlloc > limit<<30 {
					fmt.Fprintf(os.Stderr, "HARNESS-ERROR: heap of %d MiB exceeds the limit of %d GiB; exploration aborted\n", ms.HeapAlloc>>20, limit)
					os.Exit(4)
				}
			}
		}()
	})
}

func New(id string) *Report {
	startMemGuard()
	return &Report{ID: id, Tier: Tier(), Seed: Seed(), Classes: map[string]int64{}, Extra: map[string]interface{}{},
		Exhaustive: true, start: time.Now(), vioSeen: map[string]int{}, maxSamples: 6}
}

// Eval records one evaluated case; class names the (kind, outcome) class it fell in.
func (r *Report) Eval(class string) {
	r.mu.Lock()
	r.Evaluations++
	r.Classes[class]++
	r.mu.Unlock()
}

func (r *Report) AddStates(n int64)      { r.mu.Lock(); r.States += n; r.mu.Unlock() }
func (r *Report) AddTransitions(n int64) { r.mu.Lock(); r.Transitions += n; r.mu.Unlock() }
func (r *Report) AddTraces(n int64)      { r.mu.Lock(); r.Traces += n; r.mu.Unlock() }

func (r *Report) Sample(x interface{}) {
	r.mu.Lock()
	if len(r.Samples) < r.maxSamples {
		r.Samples = append(r.Samples, x)
	}
	r.mu.Unlock()
}

// SampleForce records a sample even when the usual cap is reached (used for "last" samples).
func (r *Report) SampleForce(x interface{}) {
	r.mu.Lock()
	if len(r.Samples) < r.maxSamples+4 {
		r.Samples = append(r.Samples, x)
	}
	r.mu.Unlock()
}

func (r *Report) Note(format string, a ...interface{}) {
	r.mu.Lock()
	r.Notes = append(r.Notes, fmt.Sprintf(format, a...))
	r.mu.Unlock()
}

func (r *Report) Set(k string, v interface{}) { r.mu.Lock(); r.Extra[k] = v; r.mu.Unlock() }

func (r *Report) Add(k string, n int64) {
	r.mu.Lock()
	cur, _ := r.Extra[k].(int64)
	r.Extra[k] = cur + n
	r.mu.Unlock()
}

func (r *Report) NotExhaustive(why string) {
	r.mu.Lock()
	r.Exhaustive = false
	r.Notes = append(r.Notes, "not exhaustive: "+why)
	r.mu.Unlock()
}

// Violation records a failing case. At most 3 cases per signature are kept in detail.
func (r *Report) Violation(sig, desc string, replay interface{}) {
	r.mu.Lock()
	defer r.mu.Unlock()
	r.vioSeen[sig]++
	if r.vioSeen[sig] > 3 {
		return
	}
	r.Violations = append(r.Violations, Violation{Sig: sig, Desc: desc, Replay: replay})
}

func (r *Report) NViolations() int { r.mu.Lock(); defer r.mu.Unlock(); return len(r.Violations) }

// Finish writes the report. Returns an error string if it cannot.
func (r *Report) Finish() error {
	r.mu.Lock()
	defer r.mu.Unlock()
	r.WallS = time.Since(r.start).Seconds()
	counts := map[string]int{}
	for k, v := range r.vioSeen {
		counts[k] = v
	}
	r.Extra["violation_counts"] = counts
	keys := make([]string, 0, len(r.Classes))
	for k := range r.Classes {
		keys = append(keys, k)
	}
	sort.Strings(keys)
	r.Extra["class_names"] = keys
	out := os.Getenv("VERIF_OUT")
	if out == "" {
		out = "/dev/stdout"
	}
	b, err := json.MarshalIndent(r, "", " ")
	if err != nil {
		return err
	}
	return os.WriteFile(out, b, 0o644)
}
