// Package vtime is a drop-in subset of package time on a virtual clock owned by the harness.
// With the clock disabled (default) every function maps to package time.
package vtime

import (
	"context"
	"sort"
	"sync"
	"sync/atomic"
	"time"
)

type (
	Time     = time.Time
	Duration = time.Duration
	Month    = time.Month
	Location = time.Location
	Weekday  = time.Weekday
)

const (
	Nanosecond  = time.Nanosecond
	Microsecond = time.Microsecond
	Millisecond = time.Millisecond
	Second      = time.Second
	Minute      = time.Minute
	Hour        = time.Hour
	RFC3339     = time.RFC3339
	RFC3339Nano = time.RFC3339Nano
)

const (
	January = time.January
)

var (
	UTC   = time.UTC
	Local = time.Local
)

func Date(year int, month Month, day, hour, min, sec, nsec int, loc *Location) Time {
	return time.Date(year, month, day, hour, min, sec, nsec, loc)
}
func Unix(sec int64, nsec int64) Time { return time.Unix(sec, nsec) }
func UnixMilli(ms int64) Time          { return time.UnixMilli(ms) }
func ParseDuration(s string) (Duration, error) { return time.ParseDuration(s) }

var (
	mu       sync.Mutex
	enabled  bool
	now      time.Time
	autoTick time.Duration
	timers   []*Timer
	seq      int
)

// Timer mirrors time.Timer for AfterFunc / NewTimer on the virtual clock.
type Timer struct {
	C      <-chan Time
	c      chan Time
	when   time.Time
	f      func()
	active bool
	seq    int
	real   *time.Timer
}

// Enable installs the virtual clock at t. tick is added to the clock on every Now() (0 = frozen).
func Enable(t time.Time, tick time.Duration) {
	mu.Lock()
	enabled, now, autoTick, timers = true, t, tick, nil
	mu.Unlock()
}

func Disable() { mu.Lock(); enabled = false; timers = nil; mu.Unlock() }

func Now() Time {
	mu.Lock()
	defer mu.Unlock()
	if !enabled {
		return time.Now()
	}
	now = now.Add(autoTick)
	return now
}

func Since(t Time) Duration { return Now().Sub(t) }
func Until(t Time) Duration { return t.Sub(Now()) }

// Pending returns the deadlines of the active virtual timers, sorted.
func Pending() []time.Time {
	mu.Lock()
	defer mu.Unlock()
	var out []time.Time
	for _, t := range timers {
		if t.active {
			out = append(out, t.when)
		}
	}
	sort.Slice(out, func(i, j int) bool { return out[i].Before(out[j]) })
	return out
}

// Set moves the virtual clock to t (never backwards) and fires, in deadline order and synchronously in the
// caller, every timer that has become due.
func Set(t time.Time) {
	for {
		mu.Lock()
		var due *Timer
		for _, x := range timers {
			if x.active && !x.when.After(t) && (due == nil || x.when.Before(due.when) || (x.when.Equal(due.when) && x.seq < due.seq)) {
				due = x
			}
		}
		if due == nil {
			if t.After(now) {
				now = t
			}
			mu.Unlock()
			return
		}
		due.active = false
		if due.when.After(now) {
			now = due.when
		}
		mu.Unlock()
		if due.f != nil {
			due.f()
		} else {
			select {
			case due.c <- due.when:
			default:
			}
		}
	}
}

func Advance(d time.Duration) {
	mu.Lock()
	t := now.Add(d)
	mu.Unlock()
	Set(t)
}

func newTimer(d Duration, f func()) *Timer {
	mu.Lock()
	defer mu.Unlock()
	seq++
	c := make(chan Time, 1)
	t := &Timer{C: c, c: c, when: now.Add(d), f: f, active: true, seq: seq}
	timers = append(timers, t)
	return t
}

func AfterFunc(d Duration, f func()) *Timer {
	mu.Lock()
	en := enabled
	mu.Unlock()
	if !en {
		return &Timer{real: time.AfterFunc(d, f)}
	}
	return newTimer(d, f)
}

func NewTimer(d Duration) *Timer {
	mu.Lock()
	en := enabled
	mu.Unlock()
	if !en {
		rt := time.NewTimer(d)
		return &Timer{real: rt, C: rt.C}
	}
	return newTimer(d, nil)
}

func After(d Duration) <-chan Time { return NewTimer(d).C }

func (t *Timer) Stop() bool {
	if t.real != nil {
		return t.real.Stop()
	}
	mu.Lock()
	defer mu.Unlock()
	was := t.active
	t.active = false
	return was
}

func (t *Timer) Reset(d Duration) bool {
	if t.real != nil {
		return t.real.Reset(d)
	}
	mu.Lock()
	defer mu.Unlock()
	was := t.active
	t.active = true
	t.when = now.Add(d)
	return was
}

// Sleep advances the virtual clock (the harness is the only thread of time).
func Sleep(d Duration) {
	mu.Lock()
	en := enabled
	mu.Unlock()
	if !en {
		time.Sleep(d)
		return
	}
	Advance(d)
}

// deadlineCtx is a context whose deadline lies on the virtual clock.
type deadlineCtx struct {
	context.Context
	deadline time.Time
	fired    atomic.Bool
}

func (d *deadlineCtx) Deadline() (time.Time, bool) { return d.deadline, true }
func (d *deadlineCtx) Err() error {
	err := d.Context.Err()
	if err != nil && d.fired.Load() {
		return context.DeadlineExceeded
	}
	return err
}

// WithDeadline mirrors context.WithDeadline: with the virtual clock enabled the context ends, with
// context.DeadlineExceeded, when the virtual clock reaches the deadline.
func WithDeadline(parent context.Context, at time.Time) (context.Context, context.CancelFunc) {
	mu.Lock()
	en := enabled
	mu.Unlock()
	if !en {
		return context.WithDeadline(parent, at)
	}
	inner, cancel := context.WithCancel(parent)
	d := &deadlineCtx{Context: inner, deadline: at}
	fire := func() {
		if inner.Err() == nil {
			d.fired.Store(true)
		}
		cancel()
	}
	if !at.After(Now()) {
		fire()
		return d, cancel
	}
	t := AfterFunc(at.Sub(Now()), fire)
	return d, func() { t.Stop(); cancel() }
}

func WithTimeout(parent context.Context, d time.Duration) (context.Context, context.CancelFunc) {
	return WithDeadline(parent, Now().Add(d))
}
